"""C74 — Pauli tracking: propagating a Pauli frame through H, S, CNOT is the symplectic action of the gate (E5).

R-C74-symp  ``ftqc/pauli_tracker.py``: the return tuples of ``_commute_h/_commute_s/_commute_cnot`` are read off the
            AST as GF(2)-linear maps of their bit parameters and — composed with the way ``commute_clifford_op``
            binds ``xz[i]`` to those parameters — must equal the symplectic matrix of the gate the branch is
            guarded by; ``_OPS_TO_XZ`` / ``_XZ_TO_OPS`` are the standard encoding and mutually inverse; every gate
            of ``_CLIFFORD_GATES_SUPPORTED`` has a branch.  The maps are linear over a finite space, so equality
            of the matrices decides  C P C^dagger = P'  (up to phase) for every frame.
"""

from __future__ import annotations

import ast

from .. import tables as T
from ..astutil import local_assignments
from ..cfg import walk_shallow
from ..core import AnalysisError, Report, norm
from ..index import ClassInfo, FuncInfo

MOD = "pennylane/ftqc/pauli_tracker.py"
DEC = "pennylane/ftqc/decomposition.py"
R = "R-C74-symp"
RR = "R-C74-reset"
RW = "R-C74-wireorder"
MEASURES = {"measure", "measure_x", "measure_y", "measure_arbitrary_basis"}


def _positional_map(params, rows):
    """helper rows (sets of parameter names) -> rows as sets of parameter positions"""
    pos = {p: i for i, p in enumerate(params)}
    return tuple(frozenset(pos[n] for n in r) for r in rows)


def _branches(ix, m, f: FuncInfo):
    """``if isinstance(<op param>, G): <unpack xz[i]>; return helper(args)`` at the top level of the dispatcher.

    -> list of (gate class | None, if-node, binding dict name -> flat input index, return-call | None, why)
    """
    a = f.node.args.args
    if len(a) < 2:
        return None
    opp, xzp = a[0].arg, a[1].arg
    out = []
    for st in f.node.body:
        if not isinstance(st, ast.If) or st.orelse:
            continue
        t = st.test
        if not (isinstance(t, ast.Call) and isinstance(t.func, ast.Name) and t.func.id == "isinstance" and len(t.args) == 2 and norm(t.args[0]) == opp):
            continue
        if isinstance(t.args[1], ast.Tuple):
            out.append((None, st, {}, None, "isinstance against a tuple of gates"))
            continue
        g = ix.resolve_expr(m, t.args[1])
        if not isinstance(g, ClassInfo):
            out.append((None, st, {}, None, f"gate `{norm(t.args[1])}` not resolved"))
            continue
        bind, call, why = {}, None, ""
        for s in st.body:
            if isinstance(s, ast.Assign) and len(s.targets) == 1 and isinstance(s.value, ast.Subscript) and norm(s.value.value) == xzp:
                ok, i = T.literal(s.value.slice)
                tg = s.targets[0]
                if ok and isinstance(i, int) and i >= 0 and isinstance(tg, ast.Tuple) and len(tg.elts) == 2 and all(isinstance(x, ast.Name) for x in tg.elts):
                    bind[tg.elts[0].id] = 2 * i
                    bind[tg.elts[1].id] = 2 * i + 1
                    continue
                why = f"`{norm(s)}` not modelled"
            elif isinstance(s, ast.Return) and isinstance(s.value, ast.Call):
                call = s
            elif isinstance(s, ast.Expr) and isinstance(s.value, ast.Constant):
                continue
            else:
                why = f"`{norm(s)[:50]}` not modelled"
        out.append((g, st, bind, call, why))
    return out


def _arg_index(e, bind, xzp):
    """flat input index denoted by a call argument: a bound name, or ``xz[i][j]`` directly"""
    if isinstance(e, ast.Name):
        return bind.get(e.id)
    if isinstance(e, ast.Subscript) and isinstance(e.value, ast.Subscript) and norm(e.value.value) == xzp:
        ok1, i = T.literal(e.value.slice)
        ok2, j = T.literal(e.slice)
        if ok1 and ok2 and isinstance(i, int) and j in (0, 1) and i >= 0:
            return 2 * i + j
    return None


# ---------------------------------------------------------------------------------------------
# R-C74-reset


def _parents(tree):
    out = {}
    for p_ in ast.walk(tree):
        for c in ast.iter_child_nodes(p_):
            out[c] = p_
    return out


def _owner(ix, m, node):
    best = None
    for f in ix.funcs_in(m):
        if f.node.lineno <= node.lineno <= (f.node.end_lineno or 0):
            if best is None or f.node.lineno >= best.node.lineno:
                best = f
    return best


def _reset_kw(call: ast.Call):
    """-> ("true" | "false" | "absent" | "dynamic", text)"""
    if any(k.arg is None for k in call.keywords):
        return "dynamic", "**kwargs"
    for k in call.keywords:
        if k.arg == "reset":
            ok, v = T.literal(k.value)
            if ok and v is True:
                return "true", "reset=True"
            if ok and not v:
                return "false", f"reset={v!r}"
            return "dynamic", f"reset={norm(k.value)}"
    return "absent", "no reset argument"


def _check_reset(ix, rep):
    m = ix.module(DEC)
    rep.analysed(m.relpath)

    def resolves_to(expr, names):
        r = ix.resolve_expr(m, expr) if isinstance(expr, (ast.Name, ast.Attribute)) else None
        return r.name if isinstance(r, FuncInfo) and r.name in names and r.module.name.startswith("pennylane.") else None

    n_sites = 0
    why = ("the measured graph-state wire is handed back to the qubit manager as free and in |0>, but stays in |1> whenever the outcome is 1: the next "
           "MBQC gate that recycles it builds its resource state on a dirty qubit and the byproduct corrections no longer match (history-dependent corruption)")
    for call in [n for n in ast.walk(m.tree) if isinstance(n, ast.Call)]:
        f = _owner(ix, m, call)
        qn = f.qualname if f else "<module>"
        # ---- direct measurement ------------------------------------------------------------
        name = resolves_to(call.func, MEASURES)
        if name:
            n_sites += 1
            rep.analysed(m.relpath, qn)
            kind, txt = _reset_kw(call)
            where = f"{m.relpath}:{qn} L{call.lineno} {norm(call)[:60]}"
            if kind == "true":
                rep.proved(RR, where, "reset=True on the call")
            elif kind == "dynamic":
                rep.unknown(RR, where, f"{txt} is not a literal")
            else:
                rep.refuted(RR, m.relpath, qn, norm(call), f"`{norm(call)}` measures without resetting ({txt}); every other pattern measurement passes reset=True — {why}", line=call.lineno)
            continue
        # ---- cond_measure(m, f_true, f_false)(..., reset=True) ---------------------------------
        if isinstance(call.func, ast.Call) and resolves_to(call.func.func, {"cond_measure"}):
            inner = call.func
            okind, otxt = _reset_kw(call)
            branches = list(inner.args[1:3]) + [k.value for k in inner.keywords if k.arg in ("true_fn", "false_fn")]
            defs = local_assignments(f.node) if f else {}
            for b in branches:
                n_sites += 1
                where = f"{m.relpath}:{qn} L{b.lineno} cond_measure branch {norm(b)[:50]}"
                e = b
                if isinstance(e, ast.Name) and e.id in defs and len(defs[e.id]) == 1 and defs[e.id][0][1] is not None:
                    e = defs[e.id][0][1]
                bkind = None
                if isinstance(e, ast.Call) and isinstance(e.func, (ast.Name, ast.Attribute)) and norm(e.func).split(".")[-1] == "partial" and e.args and resolves_to(e.args[0], MEASURES):
                    bkind, btxt = _reset_kw(e)
                elif resolves_to(e, MEASURES):
                    bkind, btxt = "absent", "bare measurement function"
                if bkind is None:
                    rep.unknown(RR, where, "branch is not partial(<measurement>, …) / a measurement function")
                    continue
                kind, txt = (okind, otxt + " on the cond_measure application") if okind != "absent" else (bkind, btxt + " on the partial")
                if kind == "true":
                    rep.proved(RR, where, txt)
                elif kind == "dynamic":
                    rep.unknown(RR, where, f"{txt} is not a literal")
                else:
                    rep.refuted(RR, m.relpath, qn, norm(b), f"conditional measurement branch `{norm(b)}` of `{norm(call)[:80]}…` carries reset=True neither on the partial nor on the "
                                f"cond_measure application ({txt}) — {why}", line=b.lineno)
    rep.floor("mid-circuit measurements in the MBQC pattern functions", n_sites, 62)

    # a computational-basis measurement that *replaces* a parametrised one (diagonalize_mcms) keeps the reset request of the original:
    # the call forwards postselect / meas_uid of a source measurement S, so it must forward S.reset as well
    PM = "pennylane/ftqc/parametric_midmeasure.py"
    pm = ix.module(PM)
    rep.analysed(PM)
    n_fw = 0
    for call in [n for n in ast.walk(pm.tree) if isinstance(n, ast.Call)]:
        cname = norm(call.func).split(".")[-1]
        if not cname.endswith("MidMeasure"):
            continue
        srcs = {}
        for kw in call.keywords:
            if kw.arg in ("postselect", "meas_uid", "id", "reset") and isinstance(kw.value, ast.Attribute) and kw.value.attr == kw.arg:
                srcs.setdefault(norm(kw.value.value), set()).add(kw.arg)
        for src, attrs in srcs.items():
            if not attrs & {"postselect", "meas_uid"}:
                continue
            n_fw += 1
            f = _owner(ix, pm, call)
            qn = f.qualname if f else "<module>"
            rep.analysed(PM, qn)
            where = f"{PM}:{qn} L{call.lineno} {cname}(… from {src})"
            if "reset" in attrs:
                rep.proved(RR, where, f"forwards {src}.reset together with {sorted(attrs - {'reset'})}")
            else:
                rep.refuted(RR, PM, qn, f"{cname}(…) rebuilt from {src} without reset={src}.reset",
                            f"the measurement that replaces `{src}` forwards {sorted(attrs)} but not `reset`: a wire the pattern measures with reset=True is "
                            f"handed back un-reset after diagonalisation — {why}", line=call.lineno)
    rep.floor("measurements rebuilt from an existing one in parametric_midmeasure.py", n_fw, 2)


# ---------------------------------------------------------------------------------------------
# R-C74-wireorder

_REORDER_CALLS = {"sorted", "set", "frozenset", "reversed"}
_KEEP_CALLS = {"list", "tuple", "Wires"}
_INSENSITIVE = {"len", "max", "min", "sum", "any", "all", "bool"}


def _check_wireorder(ix, rep, m, floor=5, param_sources=()):
    n_sources = 0
    for f in [f for f in ix.funcs_in(m) if f.parent is None or f.cls is not None]:
        fn = f.node
        par = _parents(fn)
        qs = {a.arg for a in fn.args.args if a.annotation is not None and norm(a.annotation).split(".")[-1] == "QuantumScript"}
        psrc = {a.arg for a in fn.args.args + fn.args.kwonlyargs if a.arg in param_sources}

        def is_source(e):
            if isinstance(e, ast.Name) and e.id in psrc and isinstance(e.ctx, ast.Load):
                return True  # the `wires` argument of compute_decomposition & co. is the operator's wires
            return isinstance(e, ast.Attribute) and e.attr == "wires" and not (isinstance(e.value, ast.Name) and e.value.id in qs)

        tainted = set()

        def derived(e):
            """e denotes the wires of an operator, in the operator's order"""
            if is_source(e):
                return True
            if isinstance(e, ast.Name):
                return e.id in tainted
            if isinstance(e, ast.Call) and isinstance(e.func, ast.Name) and e.func.id in _KEEP_CALLS and len(e.args) == 1:
                return derived(e.args[0])
            if isinstance(e, ast.Call) and isinstance(e.func, ast.Attribute) and e.func.attr in ("tolist", "copy") and not e.args:
                return derived(e.func.value)
            if isinstance(e, ast.Attribute) and e.attr == "labels":
                return derived(e.value)
            if isinstance(e, ast.Subscript) and isinstance(e.slice, ast.Slice) and not _negative_step(e.slice):
                return derived(e.value)
            return False

        changed = True
        while changed:
            changed = False
            for n in ast.walk(fn):
                if isinstance(n, ast.Assign) and len(n.targets) == 1 and isinstance(n.targets[0], ast.Name) and n.targets[0].id not in tainted and derived(n.value):
                    tainted.add(n.targets[0].id)
                    changed = True

        def use_kind(e):
            """how the value of expression node e is consumed: 'insensitive' | 'positional' | 'unknown' | ('name', v)"""
            p_ = par.get(e)
            if isinstance(p_, ast.Call) and isinstance(p_.func, ast.Name) and e in p_.args:
                if p_.func.id in _INSENSITIVE:
                    return "insensitive"
                if p_.func.id in _KEEP_CALLS | {"enumerate", "zip", "iter"}:
                    return "positional"
                return "positional"
            if isinstance(p_, ast.Call) and (e in p_.args or any(k.value is e for k in p_.keywords)):
                return "positional"
            if isinstance(p_, ast.Compare) and e in p_.comparators and all(isinstance(o, (ast.In, ast.NotIn)) for o in p_.ops):
                return "insensitive"
            if isinstance(p_, ast.Subscript) and p_.value is e:
                return "positional"
            if isinstance(p_, ast.comprehension) and p_.iter is e:
                return "positional"
            if isinstance(p_, ast.Starred) or isinstance(p_, ast.Return):
                return "positional"
            if isinstance(p_, ast.Assign) and p_.value is e:
                t = p_.targets[0]
                if len(p_.targets) == 1 and isinstance(t, ast.Name):
                    return ("name", t.id)
                return "positional"  # tuple unpacking
            if isinstance(p_, ast.For) and p_.iter is e:
                return "unknown"
            return "unknown"

        def name_uses(v, skip=()):
            kinds = []
            for n in ast.walk(fn):
                if isinstance(n, ast.Name) and n.id == v and isinstance(n.ctx, ast.Load) and n not in skip:
                    k = use_kind(n)
                    kinds.append(("unknown" if isinstance(k, tuple) else k, n))
            return kinds

        reordered_sources = set()
        sites = []
        for n in ast.walk(fn):
            if isinstance(n, ast.Call) and isinstance(n.func, ast.Name) and n.func.id in _REORDER_CALLS and n.args and derived(n.args[0]):
                sites.append((n, f"{n.func.id}(…)", n.args[0], ()))
            elif isinstance(n, ast.Subscript) and isinstance(n.slice, ast.Slice) and _negative_step(n.slice) and derived(n.value):
                sites.append((n, "[::-1]", n.value, ()))
            elif isinstance(n, ast.Call) and isinstance(n.func, ast.Attribute) and n.func.attr in ("sort", "reverse") and isinstance(n.func.value, ast.Name) and n.func.value.id in tainted:
                sites.append((n, f".{n.func.attr}()", n.func.value, (n.func.value,)))
        for node, what, arg, skip in sites:
            for x in ast.walk(arg):
                if is_source(x):
                    reordered_sources.add(x)
            where = f"{m.relpath}:{f.qualname} L{node.lineno} {norm(node)[:60]}"
            k = ("name", arg.id) if skip else use_kind(node)
            uses = name_uses(k[1], skip) if isinstance(k, tuple) else [(k, node)]
            pos = [u for kk, u in uses if kk == "positional"]
            if pos:
                u = pos[0]
                ctx = par.get(u)
                while ctx is not None and not isinstance(ctx, (ast.stmt, ast.ListComp, ast.GeneratorExp)):
                    ctx = par.get(ctx)
                st = node
                while not isinstance(st, ast.stmt):
                    st = par.get(st)
                rep.refuted(RW, m.relpath, f.qualname, st,
                            f"`{norm(node)}` re-orders the wires of an operator and the result is used positionally (L{u.lineno}: `{norm(ctx)[:80]}`): CNOT is not "
                            f"symmetric, so for CNOT(wires=[1, 0]) control and target are exchanged on the way to _commute_cnot / the xz record", line=node.lineno)
            elif uses and all(kk == "insensitive" for kk, _ in uses):
                rep.proved(RW, where, f"{what} only feeds order-insensitive uses")
            else:
                rep.unknown(RW, where, f"{what} of operator wires: uses not classified as positional or order-insensitive")
        for n in ast.walk(fn):
            if is_source(n):
                n_sources += 1
                if n not in reordered_sources:
                    rep.proved(RW, f"{m.relpath}:{f.qualname} L{n.lineno} {norm(n)}", "reaches its uses without sorted/set/reversed/.sort()")
        rep.analysed(m.relpath, f.qualname)
    rep.floor(f"reads of an operator's / measurement's wires in {m.relpath}", n_sources, floor)


def _check_output_order(ix, rep):
    """the measurement that replaces the input's sample() lists its wires in the order the input measurement requested"""
    f = ix.func(DEC, "convert_to_mbqc_formalism")
    fn = f.node
    rep.analysed(DEC, f.qualname)
    defs = {}
    for st in ast.walk(fn):
        if isinstance(st, ast.Assign) and len(st.targets) == 1 and isinstance(st.targets[0], ast.Name):
            defs.setdefault(st.targets[0].id, []).append(st.value)

    def from_wires(e, depth=0):
        """e evaluates to wires in the order of a measurement's / tape's .wires"""
        if depth > 4:
            return False
        if isinstance(e, ast.Attribute) and e.attr == "wires":
            return True
        if isinstance(e, ast.IfExp):
            return from_wires(e.body, depth + 1) and from_wires(e.orelse, depth + 1)
        if isinstance(e, ast.Name) and e.id in defs:
            return all(from_wires(d, depth + 1) for d in defs[e.id])
        if isinstance(e, ast.Call) and isinstance(e.func, ast.Name) and e.func.id in _KEEP_CALLS and len(e.args) == 1:
            return from_wires(e.args[0], depth + 1)
        return False
    n = 0
    for call in [c for c in ast.walk(fn) if isinstance(c, ast.Call) and (norm(c.func).split(".")[-1] in ("sample", "SampleMP"))]:
        for kw in call.keywords:
            if kw.arg != "wires":
                continue
            n += 1
            v = kw.value
            exprs = [v] if not (isinstance(v, ast.Name) and v.id in defs) else defs[v.id]
            where = f"{DEC}:convert_to_mbqc_formalism `{norm(call)[:50]}`"
            for e in exprs:
                if isinstance(e, (ast.ListComp, ast.GeneratorExp)) and len(e.generators) == 1:
                    it = e.generators[0].iter
                    if from_wires(it) and not e.generators[0].ifs:
                        rep.proved(RW, where, f"output wires follow `{norm(it)}` element by element")
                    elif isinstance(it, ast.Call) and isinstance(it.func, ast.Attribute) and it.func.attr in ("items", "keys", "values") or \
                            (isinstance(it, ast.Call) and isinstance(it.func, ast.Name) and it.func.id in _REORDER_CALLS):
                        rep.refuted(RW, DEC, "convert_to_mbqc_formalism", e,
                                    f"the wires of the output sample() are collected by iterating `{norm(it)[:50]}`, i.e. in the order wires first appear in the "
                                    "circuit, not in the order the input measurement lists them: for sample(wires=[1, 0]) the columns of the result are "
                                    "exchanged", line=e.lineno)
                    else:
                        rep.unknown(RW, where, f"iteration source `{norm(it)[:50]}` not classified")
                elif from_wires(e):
                    rep.proved(RW, where, "the requested wires themselves")
                else:
                    rep.unknown(RW, where, f"`{norm(e)[:50]}` not classified")
    rep.floor("output measurements of convert_to_mbqc_formalism", n, 1)


def _negative_step(sl: ast.Slice):
    ok, v = T.literal(sl.step) if sl.step is not None else (False, None)
    return bool(ok and isinstance(v, int) and v < 0)


def check(ctx):
    ix = ctx.index
    rep = Report("C74", "propagating Pauli byproducts through the supported Clifford gates satisfies C P C^dagger = P' (up to phase, "
                 "as the xz encoding documents) for every Pauli frame.")
    rep.rule(R, "for every gate G that commute_clifford_op dispatches on, helper ∘ (binding of xz[i] to the helper's parameters), read as a GF(2) "
             "matrix over (x0,z0,x1,z1), equals the symplectic matrix of G — H:(x,z)->(z,x); S:(x,z)->(x,x^z); "
             "CNOT:(xc,zc,xt,zt)->(xc,zc^zt,xc^xt,zt); _OPS_TO_XZ is the standard encoding I=(0,0),X=(1,0),Y=(1,1),Z=(0,1) and _XZ_TO_OPS its "
             "inverse; xz_to_pauli/pauli_to_xz index them in (x, z) order; every gate of _CLIFFORD_GATES_SUPPORTED has its own branch")
    rep.assume("the frame is the exponent vector of X^x Z^z per wire, wires in the operator's wire order (control first for CNOT), "
               "and `new_xz = C xz C^dagger` as the docstring of commute_clifford_op states")
    rep.rule(RR, "every mid-circuit measurement queued by ftqc/decomposition.py (measure, measure_x, measure_y, measure_arbitrary_basis called directly, "
             "or as partial(...) branches of cond_measure) carries the literal reset=True — on the call, on the partial, or on the cond_measure application — "
             "because the measured graph-state wire is released and recycled by the next gate")
    rep.rule(RW, "in ftqc/pauli_tracker.py, ftqc/graph_state_preparation.py and ftqc/decomposition.py no value derived from an operator's (or measurement's) .wires that is used positionally (indexing, unpacking, "
             "enumerate/zip, building the xz list, call argument) passes through sorted/set/frozenset/reversed/[::-1]/.sort()/.reverse(): CNOT is not "
             "symmetric, the (control, target) order must reach _commute_cnot unchanged")
    rep.assume("graph-state conversion and the byproduct corrections per measurement history are runtime behaviour and are not analysed")

    m = ix.module(MOD)
    rep.analysed(m.relpath)

    # ---- encoding tables ------------------------------------------------------------------
    enc = T.extract_table(ix, m, "_OPS_TO_XZ")
    dec = T.extract_table(ix, m, "_XZ_TO_OPS")
    enc_map, dec_map = {}, {}
    for tab, fwd in ((enc, True), (dec, False)):
        for why in tab.opaque:
            rep.unknown(R, f"{m.relpath}:{tab.name}", f"table is {why}")
        for e in tab.effective():
            op_node, xz = (e.key_node, e.value) if fwd else (e.value_node, e.key)
            name, _cls = T.pl_name_of_expr(ix, m, op_node)
            where = f"{m.relpath}:{tab.construct(e)}"
            if name is None or not (isinstance(xz, tuple) and len(xz) == 2):
                rep.unknown(R, where, f"entry `{e.text()}` does not resolve to (Pauli class, (x, z) literal)")
                continue
            (enc_map if fwd else dec_map)[name] = (xz, e, tab)
            ref = T.PAULI_XZ.get(name)
            if ref is None:
                rep.unknown(R, where, f"{name} is not a Pauli of the reference encoding")
            elif tuple(xz) != ref:
                rep.refuted(R, m.relpath, tab.construct(e), e.text(),
                            f"{name} is encoded as {tuple(xz)}; with P ~ X^x Z^z the encoding of {name} is {ref}"
                            + ("" if fwd else " (decoding table)") + ": frames are recorded / corrections applied as the wrong Pauli",
                            line=getattr(e.value_node, "lineno", 0))
            else:
                rep.proved(R, where, f"{name} <-> {ref}")
    rep.floor("entries of _OPS_TO_XZ and _XZ_TO_OPS", len(enc_map) + len(dec_map), 8)
    for name in sorted(set(enc_map) | set(dec_map)):
        a, b = enc_map.get(name), dec_map.get(name)
        where = f"{m.relpath}:_XZ_TO_OPS[_OPS_TO_XZ[{name}]]"
        if a is None or b is None:
            miss = "_OPS_TO_XZ" if a is None else "_XZ_TO_OPS"
            have = (b or a)
            rep.refuted(R, m.relpath, have[2].construct(have[1]), have[1].text(), f"{name} has an entry in {have[2].name} but none in {miss}: the two tables are not inverse to each other")
        elif tuple(a[0]) != tuple(b[0]):
            if T.PAULI_XZ.get(name) in (tuple(a[0]), tuple(b[0])):
                continue  # the deviating side has been refuted against the reference above
            rep.refuted(R, m.relpath, b[2].construct(b[1]), b[1].text(), f"_OPS_TO_XZ[{name}] = {tuple(a[0])} but _XZ_TO_OPS[{tuple(b[0])}] = {name}: not inverse")
        else:
            rep.proved(R, where, "round trip is the identity", nontrivial=False)

    # ---- accessors index the tables in (x, z) order -------------------------------------------
    f = ix.func(MOD, "xz_to_pauli")
    rep.analysed(m.relpath, f.qualname)
    ps = [a.arg for a in f.node.args.args]
    subs = [n for n in walk_shallow(f.node) if isinstance(n, ast.Subscript) and T.same_table(T.resolve_table_expr(ix, m, n.value), dec)]
    for n in subs:
        if isinstance(n.slice, ast.Tuple) and len(n.slice.elts) == 2 and all(isinstance(x, ast.Name) for x in n.slice.elts) and len(ps) >= 2:
            got = [x.id for x in n.slice.elts]
            if got == ps[:2]:
                rep.proved(R, f"{m.relpath}:xz_to_pauli {norm(n)}", "decoding key is (x, z) in parameter order")
            elif got == ps[:2][::-1]:
                rep.refuted(R, m.relpath, "xz_to_pauli", norm(n), f"_XZ_TO_OPS is indexed with ({got[0]}, {got[1]}) — the (x, z) pair swapped: X and Z corrections are exchanged", line=n.lineno)
            else:
                rep.unknown(R, f"{m.relpath}:xz_to_pauli {norm(n)}", "key is not built from the two parameters")
        else:
            rep.unknown(R, f"{m.relpath}:xz_to_pauli {norm(n)}", "key form not modelled")

    # ---- helpers as GF(2) maps ----------------------------------------------------------------
    disp = ix.func(MOD, "commute_clifford_op")
    rep.analysed(m.relpath, disp.qualname)
    branches = _branches(ix, m, disp)
    if not branches:
        raise AnalysisError("commute_clifford_op no longer dispatches with `if isinstance(clifford_op, G): … return helper(…)` branches")
    xzp = disp.node.args.args[1].arg
    helper_cache = {}
    dispatched = {}
    n_gates = 0
    for g, ifnode, bind, ret, why in branches:
        if g is None:
            rep.unknown(R, f"{m.relpath}:commute_clifford_op {norm(ifnode.test)}", why)
            continue
        gname = g.name
        where = f"{m.relpath}:commute_clifford_op[{gname}]"
        dispatched.setdefault(gname, ifnode)
        ref = T.SYMPLECTIC.get(gname)
        if ref is None:
            rep.unknown(R, where, f"no symplectic reference for {gname}")
            continue
        if ret is None or why:
            rep.unknown(R, where, why or "branch does not end in `return helper(...)`")
            continue
        call = ret.value
        h = ix.resolve_expr(m, call.func)
        if not isinstance(h, FuncInfo) or call.keywords or any(isinstance(x, ast.Starred) for x in call.args):
            rep.unknown(R, where, f"callee `{norm(call.func)}` not resolved / call shape not positional")
            continue
        n_gates += 1
        if h not in helper_cache:
            helper_cache[h] = T.gf2_outputs(h.node)
            rep.analysed(h.module.relpath, h.qualname)
        params, rows, groups, hret = helper_cache[h]
        if rows is None:
            rep.unknown(R, where, f"{h.qualname}: {groups}")
            continue
        args = [_arg_index(x, bind, xzp) for x in call.args]
        if len(args) != len(params) or any(x is None for x in args):
            rep.unknown(R, where, f"arguments of `{norm(call)}` are not bound to xz[i] components")
            continue
        n = len(ref)
        if len(rows) != n or sum(groups) != n or any(gsz != 2 for gsz in groups):
            rep.refuted(R, h.module.relpath, h.qualname, hret,
                        f"{h.qualname} returns {len(rows)} bit(s) in groups {groups} for {gname}, which acts on {n // 2} wire(s) = {n} frame bits", line=hret.lineno)
            continue
        env = dict(zip(params, args))
        composed = tuple(frozenset_xor(env[p] for p in r) for r in rows)
        names = ["x", "z"] if n == 2 else ["xc", "zc", "xt", "zt"]
        if composed == ref:
            rep.proved(R, where, f"{h.qualname} ∘ binding = {T.symplectic_text(ref, names)}")
            continue
        # blame: the helper read positionally (x, z per wire in wire order) or the dispatcher's binding
        positional = _positional_map(params, rows)
        if positional == ref:
            rep.refuted(R, m.relpath, "commute_clifford_op", ret,
                        f"{gname} frames are passed to {h.qualname} as {tuple(names[i] for i in args)}: the propagated frame is {T.symplectic_text(composed, names)}, "
                        f"the symplectic action of {gname} is {T.symplectic_text(ref, names)}", line=ret.lineno)
        elif any(v == positional for v in T.SYMPLECTIC.values()):
            other = next(k for k, v in T.SYMPLECTIC.items() if v == positional)
            rep.refuted(R, m.relpath, "commute_clifford_op", ret,
                        f"{gname} is propagated by {h.qualname}, which implements the action of {other} ({T.symplectic_text(positional, names)}); "
                        f"conjugation by {gname} maps {T.symplectic_text(tuple(frozenset({i}) for i in range(n)), names)} to {T.symplectic_text(ref, names)}",
                        line=ret.lineno)
        else:
            rep.refuted(R, h.module.relpath, h.qualname, hret,
                        f"{gname} is propagated by {h.qualname} as {T.symplectic_text(composed, names)}"
                        f"; conjugation by {gname} maps {T.symplectic_text(tuple(frozenset({i}) for i in range(n)), names)} to {T.symplectic_text(ref, names)}",
                        line=hret.lineno)
    # shortcuts: a return of the dispatcher that hands back the incoming frame (or a copy of it) without going through a helper is only
    # right if every supported gate fixes that frame — CNOT does not fix (I, Z): Z on the target spreads to the control
    for r_ in [n for n in walk_shallow(disp.node) if isinstance(n, ast.Return) and n.value is not None]:
        v_ = r_.value
        names_ = {x.id for x in ast.walk(v_) if isinstance(x, ast.Name)}
        calls_ = [c for c in ast.walk(v_) if isinstance(c, ast.Call) and norm(c.func).split(".")[-1] not in ("tuple", "list", "copy", "deepcopy", "int")]
        if xzp in names_ and not calls_:
            rep.refuted(R, m.relpath, "commute_clifford_op", r_,
                        f"`{norm(r_)[:70]}` returns the incoming frame without propagating it through a gate helper: for CNOT a frame with identity on the "
                        "control and Z (or Y) on the target is not fixed (Z_t -> Z_c Z_t), so the recorded byproducts are wrong for that frame", line=r_.lineno)
    if n_gates == 0:
        # the dispatcher is written in a form whose argument binding this rule does not follow (merged isinstance branches, star
        # unpacking, …): decide the helpers on their own by the module's naming convention `_commute_<gate>` and positional reading
        # (x, z per wire, control first); the binding stays undecided
        for hname, gname in (("_commute_s", "S"), ("_commute_h", "Hadamard"), ("_commute_cnot", "CNOT")):
            h = m.functions.get(hname)
            ref = T.SYMPLECTIC.get(gname) or T.SYMPLECTIC.get({"Hadamard": "H"}.get(gname, gname))
            if h is None or ref is None:
                continue
            params, rows, groups, hret = T.gf2_outputs(h.node)
            rep.analysed(m.relpath, h.qualname)
            where = f"{m.relpath}:{hname} (helper alone)"
            if rows is None or len(rows) != len(ref):
                rep.unknown(R, where, "helper not readable as a GF(2) map")
                continue
            n_gates += 1
            if _positional_map(params, rows) == ref:
                rep.proved(R, where, f"read positionally it is the symplectic action of {gname}; how commute_clifford_op binds xz[i] to it is not decided")
            else:
                rep.unknown(R, where, f"read positionally it is not the symplectic action of {gname}, and the dispatcher's binding is not followed")
    rep.floor("Clifford gates dispatched to a GF(2) helper", n_gates, 3)

    # ---- every supported gate has its own branch ------------------------------------------------
    sup = T.extract_table(ix, m, "_CLIFFORD_GATES_SUPPORTED")
    ends_in_raise = bool(disp.node.body) and isinstance(disp.node.body[-1], ast.Raise)
    n_sup = 0
    for e in sup.entries:
        name, _c = T.pl_name_of_expr(ix, m, e.value_node)
        where = f"{m.relpath}:_CLIFFORD_GATES_SUPPORTED {norm(e.value_node)}"
        if name is None:
            rep.unknown(R, where, "entry does not resolve to an operator class")
            continue
        n_sup += 1
        if name in dispatched:
            rep.proved(R, where, f"commute_clifford_op has a branch for {name}", nontrivial=False)
        elif any(g is None for g, *_ in branches) or not ends_in_raise:
            rep.unknown(R, where, "dispatch form not fully modelled")
        else:
            rep.refuted(R, m.relpath, "_CLIFFORD_GATES_SUPPORTED", norm(e.value_node),
                        f"{name} is declared supported (and routed to commute_clifford_op by _get_xz_record) but commute_clifford_op has no branch for it", line=getattr(e.value_node, "lineno", 0))
    rep.floor("entries of _CLIFFORD_GATES_SUPPORTED", n_sup, 3)

    _check_wireorder(ix, rep, m)
    _check_output_order(ix, rep)
    for rel_, fl_ in (("pennylane/ftqc/graph_state_preparation.py", 3), ("pennylane/ftqc/decomposition.py", 3)):
        _check_wireorder(ix, rep, ix.module(rel_), floor=fl_, param_sources=("wires",))
    _check_reset(ix, rep)
    return rep


def frozenset_xor(items):
    acc = frozenset()
    for i in items:
        acc = acc ^ frozenset([i])
    return acc
