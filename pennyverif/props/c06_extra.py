"""R-C06-containers — added after an independent seeded change (sorted keys vs insertion-ordered values
in pytrees.flatten_dict) was missed: the builtin-container flatten/unflatten pairs of
pennylane/pytrees/pytrees.py must be structurally inverse to each other."""

from __future__ import annotations

import ast

from ..astutil import call_name
from ..cfg import walk_shallow
from ..core import AnalysisError, norm

MOD = "pennylane/pytrees/pytrees.py"


def _order_source(e, defs, depth=0):
    """'sorted' / 'insertion' / None for an expression that enumerates a dict parameter."""
    if depth > 4 or e is None:
        return None
    if isinstance(e, ast.Name) and e.id in defs:
        kinds = {_order_source(v, defs, depth + 1) for v in defs[e.id]}
        kinds.discard(None)
        if not kinds:
            return None
        return "sorted" if "sorted" in kinds and len(kinds) == 1 else ("mixed" if len(kinds) > 1 else kinds.pop())
    if isinstance(e, ast.Call):
        cn = call_name(e) or ""
        if cn in ("sorted",) or cn.endswith(".sort"):
            return "sorted"
        if cn in ("tuple", "list", "iter", "reversed") and e.args:
            if cn == "reversed":
                return "reversed"
            inner = _order_source(e.args[0], defs, depth + 1)
            return inner or ("insertion" if isinstance(e.args[0], ast.Name) else None)
        if isinstance(e.func, ast.Attribute) and e.func.attr in ("values", "keys", "items") and not e.args:
            return "insertion"
    if isinstance(e, (ast.ListComp, ast.GeneratorExp)) and e.generators:
        return _order_source(e.generators[0].iter, defs, depth + 1)
    return None


def extra(ctx, rep):
    ix = ctx.index
    rep.rule("R-C06-containers", "the builtin-container pytree pairs are inverse by construction: flatten_dict enumerates keys and values "
             "in one order and unflatten_dict zips (keys, values) in that order; the flatten / unflatten / typename tables have the same "
             "key set; the JAX adapter passes (children, aux) to the PennyLane-style unflatten function")
    m = ix.module(MOD)
    rep.analysed(MOD)
    fd = m.functions.get("flatten_dict")
    ud = m.functions.get("unflatten_dict")
    if fd is None or ud is None:
        raise AnalysisError("pytrees.flatten_dict / unflatten_dict vanished")
    defs = {}
    for n in walk_shallow(fd.node):
        if isinstance(n, ast.Assign):
            for t in n.targets:
                if isinstance(t, ast.Name):
                    defs.setdefault(t.id, []).append(n.value)
    rets = [n for n in walk_shallow(fd.node) if isinstance(n, ast.Return) and isinstance(n.value, ast.Tuple) and len(n.value.elts) == 2]
    if not rets:
        rep.unknown("R-C06-containers", f"{MOD}:flatten_dict", "return (leaves, metadata) not recognised")
    for r in rets:
        a, b = (_order_source(x, defs) for x in r.value.elts)
        where = f"{MOD}:flatten_dict {norm(r)}"
        if a is None or b is None:
            rep.unknown("R-C06-containers", where, "enumeration order of leaves/keys not resolved")
        elif a == b and a != "mixed":
            rep.proved("R-C06-containers", where, f"values and keys both in {a} order")
        else:
            rep.refuted("R-C06-containers", MOD, "flatten_dict", r,
                        f"the leaves are enumerated in {a} order but the keys in {b} order: unflatten_dict zips them position by position, so a "
                        "dictionary whose insertion order is not the sorted order comes back with its values attached to the wrong keys")
    # unflatten_dict: dict(zip(metadata, data))
    params = [x.arg for x in ud.node.args.args]
    zips = [n for n in walk_shallow(ud.node) if isinstance(n, ast.Call) and call_name(n) == "zip"]
    if len(params) >= 2 and zips:
        z = zips[0]
        names = [a.id if isinstance(a, ast.Name) else None for a in z.args[:2]]
        if names == [params[1], params[0]]:
            rep.proved("R-C06-containers", f"{MOD}:unflatten_dict", "zip(metadata keys, data values)")
        elif names == [params[0], params[1]]:
            rep.refuted("R-C06-containers", MOD, "unflatten_dict", z, "keys and values are zipped the wrong way round: the leaves become the keys")
        else:
            rep.unknown("R-C06-containers", f"{MOD}:unflatten_dict", "zip arguments not recognised")
    else:
        rep.unknown("R-C06-containers", f"{MOD}:unflatten_dict", "reconstruction form not recognised")
    # sibling tables
    tabs = {}
    for name in ("flatten_registrations", "unflatten_registrations", "type_to_typename"):
        vals = m.all_assigns.get(name, [])
        d = next((v for v in vals if isinstance(v, ast.Dict)), None)
        if d is None:
            rep.unknown("R-C06-containers", f"{MOD}:{name}", "table not a dict display")
            continue
        tabs[name] = {norm(k) for k in d.keys}
    if len(tabs) == 3:
        ks = list(tabs.values())
        if ks[0] == ks[1] == ks[2]:
            rep.proved("R-C06-containers", f"{MOD}: registration tables", f"same {len(ks[0])} builtin types in all three tables")
        else:
            for name, s_ in tabs.items():
                missing = set.union(*ks) - s_
                if missing:
                    rep.refuted("R-C06-containers", MOD, name, f"{name} lacks {sorted(missing)}",
                                f"builtin type(s) {sorted(missing)} are registered in a sibling table but not in {name}: flattening works and "
                                "unflattening raises (or the reverse)")
    # JAX adapter
    for f in ix.funcs_in(m):
        if f.name == "jax_unflatten" and f.parent is not None:
            ps = [x.arg for x in f.node.args.args]
            calls = [n for n in walk_shallow(f.node) if isinstance(n, ast.Call) and isinstance(n.func, ast.Name) and n.func.id == "unflatten_fn"]
            if len(ps) == 2 and calls:
                got = [a.id if isinstance(a, ast.Name) else None for a in calls[0].args[:2]]
                if got == [ps[1], ps[0]]:
                    rep.proved("R-C06-containers", f"{MOD}:{f.qualname}", "passes (children, aux) to the (data, metadata) unflatten function")
                elif got == ps:
                    rep.refuted("R-C06-containers", MOD, f.qualname, calls[0],
                                "the JAX adapter hands (aux, children) to an unflatten function that expects (data, metadata)")
