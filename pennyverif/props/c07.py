"""C07 — operator class attribute claims are true.

Each ``Attribute([...])`` set of ``ops/qubit/attributes.py`` is compared with what the named class
declares about itself elsewhere (``adjoint``, ``pow``, ``generator``, symbolic registrations,
``compute_eigvals``, ``compute_diagonalizing_gates``) and, where E4 can decide the claim on the
class's own ``compute_matrix``, with the matrix (shape, Fourier support, exact square).

R-C07-names    every string resolves to an operator class name or a module-level alias of one
R-C07-selfinv  self_inverses: unparametrized; adjoint() identical; pow reduces z % 2; symbolic registrations are
               self_adjoint / pow_involutory; the exact matrix squares to the identity where it is literal
R-C07-diag     diagonal_in_z_basis: compute_matrix not NotDiagonal; an own compute_diagonalizing_gates returns [];
               compute_eigvals defined below the operator base
R-C07-comp     composable_rotations: one-parameter generator (documented exception Rot); adjoint negated; pow scaled
R-C07-ugen     has_unitary_generator: all frequencies of the matrix have equal non-zero modulus; generator not a projector
R-C07-symm     symmetric_over_all_wires / symmetric_over_control_wires: the symbolic matrix E4 reads off compute_matrix is
               invariant, entry by entry, under every transposition of (control) qubits

A refutation names the attribute entry (``<set>[<name>]``): the claim is the entry.  All reasons found for
one entry are reported in one finding.
"""

from __future__ import annotations

import ast

from .. import opfacts as F
from .. import trigdom as T
from ..cfg import walk_shallow
from ..core import AnalysisError, Report
from ..index import FuncInfo

NAMES = "R-C07-names"
SELFINV = "R-C07-selfinv"
DIAG = "R-C07-diag"
COMP = "R-C07-comp"
UGEN = "R-C07-ugen"
SYMM = "R-C07-symm"
AT = F.ATTRIBUTES_MODULE

EXPECTED_SETS = ("composable_rotations", "has_unitary_generator", "self_inverses", "symmetric_over_all_wires",
                 "symmetric_over_control_wires", "diagonal_in_z_basis", "supports_broadcasting")

# named exceptions (DESIGN 2.3 point 3)
COMPOSABLE_EXCEPTIONS = {
    "Rot": "documented in the docstring of composable_rotations: 'although the three angles it takes do not fulfil the composable "
           "property, the gate implements a rotation around an axis by an effective angle which does' (merge_rotations fuses Rot "
           "through fuse_rot_angles, not by adding angles)",
}
NOT_DECIDED = {
    "supports_broadcasting": "the batched-matrix claim is numerical; the candidate structural rule (ndim_params declared) was probed and is not a "
                             "necessary condition of the property (DESIGN C07, not armed)",
}


class Entry:
    """verdict collector for one attribute entry under one rule"""

    def __init__(self, rep, rule, aset, name, node, cls):
        self.rep, self.rule, self.aset, self.name, self.node, self.cls = rep, rule, aset, name, node, cls
        self.reasons = []
        self.where = f"{AT}:{aset}[{name}]"

    def proved(self, what, detail):
        self.rep.proved(self.rule, f"{self.where} ({what})", detail)

    def unknown(self, what, detail):
        self.rep.unknown(self.rule, f"{self.where} ({what})", detail)

    def exempt(self, what, detail):
        self.rep.exempt(self.rule, f"{self.where} ({what})", detail)

    def refute(self, reason):
        self.reasons.append(reason)

    def close(self):
        if self.reasons:
            self.rep.refuted(self.rule, AT, f"{self.aset}[{self.name}]", self.node,
                             f"'{self.name}' is listed in attributes.{self.aset} but " + "; and ".join(self.reasons),
                             cls=self.cls.fq if self.cls is not None else None)


def _returns(f: FuncInfo):
    return [n for n in walk_shallow(f.node) if isinstance(n, ast.Return)]


# ------------------------------------------------------------------------------------------ rules
def check_names(ix, rep, sets):
    resolved = {}
    n = n_ok = 0
    for sname, s in sets.items():
        for name, node in zip(s.names, s.nodes):
            n += 1
            c = F.resolve_op_name(ix, name)
            where = f"{AT}:{sname}[{name}]"
            if c is None:
                rep.refuted(NAMES, AT, f"{sname}[{name}]", node,
                            f"'{name}' in attributes.{sname} is neither the __name__ of an operator class of the package nor a module-level alias "
                            f"of one: `op in {sname}` compares op.name with this string, so the entry can never match (a misspelt name silently "
                            f"disables the compiler passes that consult the set)")
            else:
                n_ok += 1
                alias = "" if c.name == name else f" (alias of {c.name})"
                rep.proved(NAMES, where, f"{c.module.relpath}:{c.name}{alias}", nontrivial=c.name != name)
            resolved[(sname, name)] = c
    return resolved, n, n_ok


def check_selfinv(ix, rep, s, resolved, regs):
    stats = dict(entries=0, adjoint=0, pow=0, square=0, sym=0)
    for name, node in zip(s.names, s.nodes):
        cls = resolved.get((s.name, name))
        if cls is None:
            continue
        stats["entries"] += 1
        e = Entry(rep, SELFINV, s.name, name, node, cls)
        rep.analysed(cls.module.relpath, cls.name)
        # (a) unparametrized
        n = F.n_params(ix, cls)
        if n is None:
            e.unknown("parameters", "num_params / dynamic_argnames not literal")
        elif n > 0:
            e.refute(f"{cls.name} is parametrized (num_params = {n}): it cannot square to the identity for every parameter value")
        else:
            e.proved("parameters", "num_params = 0")
        # (b) adjoint
        r = F.adjoint_reading(ix, cls)
        if r.func is None:
            e.unknown("adjoint", r.why)
        elif r.exact == "identical":
            stats["adjoint"] += 1
            e.proved("adjoint", f"{cls.name}.adjoint() returns {cls.name} with unchanged arguments")
        elif r.exact in ("negated", "other") or r.kind == "other-class":
            what = f"{cls.name}({r.describe()})" if r.exact else f"another class ({r.detail.get('returns')})"
            e.refute(f"{cls.name}.adjoint() returns {what}, not the operator itself")
        else:
            e.unknown("adjoint", f"adjoint is '{r.kind}' ({r.why})")
        # (c) pow
        p = F.pow_reading(ix, cls)
        if p.func is None:
            e.exempt("pow", "pow is not overridden below the generic base classes: nothing to contradict")
        elif p.kind == "mod" and p.all_reduced and p.modulus == 2:
            stats["pow"] += 1
            e.proved("pow", "every use of the exponent is z % 2")
        elif p.kind == "mod" and p.all_reduced:
            e.refute(f"{cls.name}.pow reduces the exponent z % {p.modulus}, i.e. declares period {p.modulus}, not 2")
        elif p.exact == "scaled":
            e.refute(f"{cls.name}.pow scales a parameter ({p.describe()})")
        else:
            e.unknown("pow", f"pow is '{p.kind}' ({p.why})")
        # (d) symbolic registrations
        for kind, good in (("Adjoint", "self_adjoint"), ("Pow", "pow_period")):
            rr = [x for x in regs.get((kind, cls.name), []) if x[0] is not None]
            if not rr:
                e.exempt(f"{kind} registration", f"no generic symbolic rule is attached to '{kind}({cls.name})'")
                continue
            ok = True
            for k, period, _call, relp, text in rr:
                if k == good and (kind == "Adjoint" or period == 2):
                    continue
                if k == "pow_period" and period is None:
                    continue
                ok = False
                what = {"adjoint_rotation": "the adjoint_rotation rule (negate the rotation angle)", "pow_rotation": "the pow_rotation rule (scale the rotation angle)",
                        "pow_period": f"a period-{period} power rule", "self_adjoint": "a self_adjoint rule"}.get(k, k)
                e.refute(f"{relp} attaches {what} `{text}` to '{kind}({cls.name})'")
            if ok:
                stats["sym"] += 1
                e.proved(f"{kind} registration", ", ".join(x[4] for x in rr))
        # (e) the exact matrix
        m = F.exact_entries(ix, cls)
        if m is None or len(m) > 16:
            e.unknown("U**2", "compute_matrix is not an exactly known constant matrix (opaque constants such as 1/sqrt(2)): U U = 1 not decided")
        elif F.mat_power_is_identity(m, 2):
            stats["square"] += 1
            e.proved("U**2", f"the exact {len(m)}x{len(m)} matrix of {cls.name}.compute_matrix squares to the identity")
        else:
            e.refute(f"the exact matrix of {cls.name}.compute_matrix does not square to the identity")
        e.close()
    return stats


def check_diag(ix, rep, s, resolved):
    stats = dict(entries=0, diagonal=0, eigvals=0, diag_gates=0)
    for name, node in zip(s.names, s.nodes):
        cls = resolved.get((s.name, name))
        if cls is None:
            continue
        stats["entries"] += 1
        e = Entry(rep, DIAG, s.name, name, node, cls)
        rep.analysed(cls.module.relpath, cls.name)
        info = T.analyse_matrix(ix, cls)
        if info.node is not None:
            rep.analysed(info.node.module.relpath, info.node.qualname)
        if info.shape == "notdiagonal":
            e.refute(f"{info.node.module.relpath}:{info.node.qualname} has an off-diagonal entry that is certainly non-zero (E4 shape NotDiagonal)")
        elif info.shape == "diagonal":
            stats["diagonal"] += 1
            e.proved("matrix", f"E4 shape Diagonal: every off-diagonal entry of {info.node.qualname} is the literal zero ({info.why})")
        else:
            e.unknown("matrix", f"E4 shape unknown ({info.why})")
        f = cls.own_method("compute_diagonalizing_gates")
        if f is None:
            e.exempt("diagonalizing gates", "compute_diagonalizing_gates is not defined in the class itself")
        else:
            rets = _returns(f)
            if rets and all(isinstance(r.value, (ast.List, ast.Tuple)) and not r.value.elts for r in rets):
                stats["diag_gates"] += 1
                e.proved("diagonalizing gates", f"{cls.name}.compute_diagonalizing_gates returns []")
            elif rets and all(isinstance(r.value, (ast.List, ast.Tuple)) for r in rets) and any(r.value.elts for r in rets):
                bad = next(r for r in rets if r.value.elts)
                e.refute(f"{cls.name}.compute_diagonalizing_gates returns the non-empty list `{ast.unparse(bad.value)[:60]}`: the class itself says "
                         f"that a basis change is needed to diagonalize it")
            else:
                e.unknown("diagonalizing gates", "the returned value is not a list display")
        dc, ev = cls.lookup("compute_eigvals", stop_at=T.BASE_STOP)
        if dc is None:
            e.refute(f"{cls.name} defines no compute_eigvals below the operator base class — required of every member by the docstring of "
                     f"diagonal_in_z_basis (the fallback np.linalg.eigvals on the matrix fails for some tensor types)")
        else:
            stats["eigvals"] += 1
            e.proved("eigvals", f"compute_eigvals defined in {dc.name}", )
        e.close()
    return stats


def check_comp(ix, rep, s, resolved):
    stats = dict(entries=0, generator=0, adjoint=0, pow=0)
    for name, node in zip(s.names, s.nodes):
        cls = resolved.get((s.name, name))
        if cls is None:
            continue
        stats["entries"] += 1
        e = Entry(rep, COMP, s.name, name, node, cls)
        rep.analysed(cls.module.relpath, cls.name)
        if name in COMPOSABLE_EXCEPTIONS:
            e.exempt("exception", COMPOSABLE_EXCEPTIONS[name])
            continue
        n = F.n_params(ix, cls)
        g = F.generator_info(ix, cls)
        if n is None:
            e.unknown("generator", "num_params / dynamic_argnames not literal")
        elif n != 1:
            e.refute(f"{cls.name} has {n} parameters: U(a) U(b) = U(a + b) is a statement about one rotation angle (the only documented exception is Rot)")
        elif g is None:
            e.unknown("generator", f"{cls.name} has one parameter but defines no generator() below the generic base classes")
        else:
            stats["generator"] += 1
            e.proved("generator", f"one parameter and a generator ({g.form}{' of ' + g.base_cls.name if g.base_cls else ''}): U(p) = exp(i p G) composes additively")
        r = F.adjoint_reading(ix, cls)
        if r.func is None:
            e.unknown("adjoint", r.why)
        elif r.exact == "negated":
            stats["adjoint"] += 1
            e.proved("adjoint", f"adjoint returns {cls.name}({r.describe()})")
        elif r.exact in ("identical", "other"):
            e.refute(f"{cls.name}.adjoint() returns {cls.name}({r.describe()}) instead of the rotation by the negated angle (U(a) U(-a) = U(0) = 1)")
        else:
            e.unknown("adjoint", f"adjoint is '{r.kind}' ({r.why})")
        p = F.pow_reading(ix, cls)
        if p.func is None:
            e.exempt("pow", "pow is not overridden below the generic base classes")
        elif p.exact == "scaled":
            stats["pow"] += 1
            e.proved("pow", f"pow returns [{cls.name}({p.describe()})]")
        elif p.exact in ("identical", "other"):
            e.refute(f"{cls.name}.pow(z) returns [{cls.name}({p.describe()})] instead of the rotation by z times the angle (U(a)**z = U(z a))")
        elif p.kind == "mod" and p.all_reduced:
            e.refute(f"{cls.name}.pow uses the exponent only through z % {p.modulus}, which is not the behaviour of an additive rotation")
        else:
            e.unknown("pow", f"pow is '{p.kind}' ({p.why})")
        e.close()
    return stats


def _fmt(fs):
    return "{" + ", ".join(str(f) for f in sorted(fs)) + "}"


def check_ugen(ix, rep, s, resolved):
    stats = dict(entries=0, proved=0, exact=0)
    for name, node in zip(s.names, s.nodes):
        cls = resolved.get((s.name, name))
        if cls is None:
            continue
        stats["entries"] += 1
        e = Entry(rep, UGEN, s.name, name, node, cls)
        rep.analysed(cls.module.relpath, cls.name)
        n = F.n_params(ix, cls)
        g = F.generator_info(ix, cls)
        if g is not None and g.form == "projector":
            e.refute(f"{cls.name}.generator() returns a basis-state Projector ({g.bits}), which is idempotent and of rank one — not proportional to a unitary")
        info = T.analyse_matrix(ix, cls)
        if n != 1:
            e.unknown("spectrum", f"{cls.name} declares {n} parameters: 'the generator' is only defined for one-parameter gates")
        elif info.node is None or len(info.params) != 1:
            e.unknown("spectrum", f"no one-parameter compute_matrix ({info.why})")
        else:
            rep.analysed(info.node.module.relpath, info.node.qualname)
            p = info.params[0]
            sup = info.support.get(p)
            eq = T.all_equal_modulus(sup)
            if sup is None or sup.freqs is None or eq is None:
                e.unknown("spectrum", f"support of {info.node.qualname} in {p} is Top ({info.why})")
            elif eq:
                stats["proved"] += 1
                stats["exact"] += 1 if sup.exact else 0
                e.proved("spectrum", f"Fourier support of {info.node.qualname} in {p} is {sup!r}: all eigenvalues of the generator have the same non-zero "
                         f"modulus{'' if sup.exact else ' (a subset of an equal-modulus set has equal modulus)'}")
            elif sup.exact:
                e.refute(f"{info.node.module.relpath}:{info.node.qualname} has the exact Fourier support {_fmt(sup.freqs)} in `{p}`: the generator has "
                         f"eigenvalues of different modulus"
                         + (" (among them 0)" if 0 in sup.freqs else "") + ", so it is not proportional to a unitary")
            else:
                e.unknown("spectrum", f"support {sup!r} is an over-approximation with unequal moduli: not decided")
        e.close()
    return stats


def _show(sc):
    alts = sorted(repr(a) for a in getattr(sc, "alts", ()))
    return alts[0] if len(alts) == 1 else "one of {" + ", ".join(alts) + "}"


def _ket(i, n):
    return format(i, f"0{n}b")


def check_symm(ix, rep, sets, resolved):
    """the matrix of a gate on n wires does not depend on the order of (all / the control) wires iff it is invariant
    under every transposition of those qubits: M[pi(i), pi(j)] == M[i, j], pi exchanging two bits of the basis index"""
    stats = dict(all_entries=0, all_proved=0, ctrl_entries=0, ctrl_proved=0)
    for sname, over_controls in (("symmetric_over_all_wires", False), ("symmetric_over_control_wires", True)):
        s = sets[sname]
        key = "ctrl" if over_controls else "all"
        for name, node in zip(s.names, s.nodes):
            cls = resolved.get((sname, name))
            if cls is None:
                continue
            stats[f"{key}_entries"] += 1
            e = Entry(rep, SYMM, sname, name, node, cls)
            rep.analysed(cls.module.relpath, cls.name)
            arrs, n, all_concrete = F.square_arrays(ix, cls)
            if arrs is None:
                e.unknown("matrix", "compute_matrix does not resolve to a concrete 2**n x 2**n array (size depends on the wires, or Top): not decided")
                continue
            nw = F._int_literal_attr(cls, "num_wires")
            if nw is not None and nw != n:
                e.unknown("matrix", f"matrix acts on {n} qubits but num_wires = {nw}")
                continue
            if over_controls:
                k = F.control_qubits(ix, cls)
                if k is None:
                    e.unknown("controls", f"the control/target split of {cls.name} cannot be read (not a Controlled2 subclass handing a base operator "
                              f"with a literal num_wires to super().__init__)")
                    continue
                qubits = list(range(k))
                what = f"the {k} control qubits (the first {k} of {n} wires)"
            else:
                qubits = list(range(n))
                what = f"all {n} qubits"
            pairs = [(a, b) for a in qubits for b in qubits if a < b]
            if not pairs:
                e.proved("matrix", f"fewer than two {'control ' if over_controls else ''}qubits: nothing to permute")
                continue
            results = [F.qubit_symmetry(a, n, pairs) for a in arrs]
            bad = next((r for r in results if r[0] == "differs"), None)
            dc, fi = T.resolve_compute_matrix(cls)
            qn = f"{fi.module.relpath}:{fi.qualname}" if fi is not None else f"{cls.name}.compute_matrix"
            if fi is not None:
                rep.analysed(fi.module.relpath, fi.qualname)
            if bad is not None:
                a, b, i, j, pi, pj, x, y = bad[1]
                e.refute(f"the matrix of {qn} is not invariant under exchanging wires {a} and {b}: entry <{_ket(i, n)}|U|{_ket(j, n)}> = {_show(x)} "
                         f"but the exchanged entry <{_ket(pi, n)}|U|{_ket(pj, n)}> = {_show(y)}; {cls.name}(wires=[..w{a}..w{b}..]) and the same gate with "
                         f"the two wires swapped are different operators, yet passes consulting the set treat them as equal")
            elif all(r[0] == "invariant" for r in results) and all_concrete:
                stats[f"{key}_proved"] += 1
                e.proved("matrix", f"every entry of the symbolic {1 << n}x{1 << n} matrix of {qn} equals its image under each transposition of {what}")
            else:
                u = next((r[1] for r in results if r[0] == "unknown"), None)
                e.unknown("matrix", "equality of two entries holding opaque constants (1/sqrt(2), ...) is not decided"
                          + (f" (first: entry [{u[2]},{u[3]}] under the exchange of qubits {u[0]},{u[1]})" if u else ""))
            e.close()
    return stats


def check(ctx):
    ix = ctx.index
    rep = Report("C07", "each attribute set of ops/qubit/attributes.py agrees with what the named class declares about itself elsewhere, and "
                 "with the class's own matrix where E4 decides the claim structurally.")
    rep.rule(NAMES, "every string of the seven Attribute([...]) displays is the __name__ of an operator class in the index or a module-level "
             "alias of one (SQISW = SISWAP)")
    rep.rule(SELFINV, "self_inverses: the class is unparametrized, its adjoint() returns the same class with unchanged arguments, its pow reduces "
             "z % 2 (when overridden), the generic symbolic rules attached to 'Adjoint(N)' / 'Pow(N)' are self_adjoint / period 2, and the exact "
             "matrix squares to the identity where compute_matrix is a literal Gaussian-rational matrix")
    rep.rule(DIAG, "diagonal_in_z_basis: E4 shape of compute_matrix is not NotDiagonal; a compute_diagonalizing_gates defined in the class itself "
             "returns []; compute_eigvals is defined below the operator base (requirement stated in the set's own docstring)")
    rep.rule(COMP, "composable_rotations: exactly one parameter and a generator (documented exception Rot); adjoint() negates the parameter; "
             "pow(z), when overridden, scales it")
    rep.rule(UGEN, "has_unitary_generator: the Fourier support of the one-parameter compute_matrix has frequencies of one non-zero modulus "
             "(generator proportional to a unitary, read off the spectrum); a generator() that is a basis-state Projector refutes")
    rep.rule(SYMM, "symmetric_over_all_wires / symmetric_over_control_wires: with the matrix of compute_matrix read by E4 as a concrete 2**n x 2**n "
             "array of symbolic entries (exact trigonometric polynomials in the gate parameters), the gate does not depend on the order of all / of its "
             "control wires iff M[pi(i), pi(j)] == M[i, j] for every transposition pi of those qubits (bits of the basis index; controls = the "
             "leading num_wires - base.num_wires wires of a Controlled2 subclass). All entries equal => proved; a provably different pair => "
             "refuted naming the pair; non-literal size (MultiRZ, Identity), opaque constants (SISWAP) or an unreadable control split => unknown. "
             "The converse (a symmetric gate missing from the set) is a missed optimisation and not checked.")
    rep.assume("exponentials exp(i f p) with distinct frequencies are linearly independent functions of the parameter: two exact symbolic entries "
               "are equal iff their term tables are equal; an opaque constant written in the source is non-zero")
    rep.assume("op.name is the class __name__ (Operator2.name / Operator.name); an alias assignment `A = B` at module level makes A denote B")
    rep.assume("E4 assumptions of C09: gate parameters are scalars, all branches joined, opaque constants written in the source are non-zero")
    rep.assume("a class with generator() G and one parameter p is exp(i p G)")
    rep.analysed(AT)

    sets = F.attribute_sets(ix)
    missing = [x for x in EXPECTED_SETS if x not in sets]
    if missing:
        raise AnalysisError(f"{AT}: attribute set(s) {missing} vanished")
    resolved, n_strings, n_resolved = check_names(ix, rep, sets)
    regs = F.symbolic_registrations(ix)

    si = check_selfinv(ix, rep, sets["self_inverses"], resolved, regs)
    dg = check_diag(ix, rep, sets["diagonal_in_z_basis"], resolved)
    cp = check_comp(ix, rep, sets["composable_rotations"], resolved)
    ug = check_ugen(ix, rep, sets["has_unitary_generator"], resolved)
    sy = check_symm(ix, rep, sets, resolved)
    for sname, why in NOT_DECIDED.items():
        rep.exempt(NAMES, f"{AT}:{sname}", f"names resolved; the claim itself: {why}")
    rep.extra["stats"] = {"self_inverses": si, "diagonal_in_z_basis": dg, "composable_rotations": cp, "has_unitary_generator": ug, "symmetric": sy}

    rep.floor("Attribute([...]) displays", len(sets), 7)
    rep.floor("attribute strings", n_strings, 109)
    rep.floor("attribute strings resolved", n_resolved, 109)
    rep.floor("generic symbolic registrations found", sum(1 for v in regs.values() for x in v if x[0]), 90)
    rep.floor("self_inverses entries", si["entries"], 11)
    rep.floor("self_inverses: identical adjoint()", si["adjoint"], 11)
    rep.floor("self_inverses: pow reduces z % 2", si["pow"], 5)
    rep.floor("self_inverses: symbolic registrations consistent", si["sym"], 22)
    rep.floor("self_inverses: exact matrix squares to identity", si["square"], 9)
    rep.floor("diagonal_in_z_basis entries", dg["entries"], 13)
    rep.floor("diagonal_in_z_basis: E4 shape Diagonal", dg["diagonal"], 11)
    rep.floor("diagonal_in_z_basis: compute_eigvals defined", dg["eigvals"], 13)
    rep.floor("diagonal_in_z_basis: own compute_diagonalizing_gates returns []", dg["diag_gates"], 1)
    rep.floor("composable_rotations entries", cp["entries"], 20)
    rep.floor("composable_rotations: one-parameter generator", cp["generator"], 19)
    rep.floor("composable_rotations: negated adjoint()", cp["adjoint"], 19)
    rep.floor("composable_rotations: scaled pow()", cp["pow"], 10)
    rep.floor("has_unitary_generator entries", ug["entries"], 14)
    rep.floor("has_unitary_generator: equal-modulus support", ug["proved"], 14)
    rep.floor("symmetric_over_all_wires entries", sy["all_entries"], 13)
    rep.floor("symmetric_over_all_wires: matrix proved invariant", sy["all_proved"], 9)
    rep.floor("symmetric_over_control_wires entries", sy["ctrl_entries"], 2)
    rep.floor("symmetric_over_control_wires: matrix proved invariant", sy["ctrl_proved"], 2)
    return rep
