"""C05 — result caching never changes results: soundness of the cache key.

R-C05-period       every (gate-name set -> modulus) table used when hashing parameters reduces a
                   parameter only by a multiple of the period of the gate's full matrix (E4 trigdom).
R-C05-fingerprint  QuantumScript.hash reads every stored constructor input.
R-C05-mpstate      analytic measurement processes hash every attribute their __init__ adds.
R-C05-opstate      legacy operators overriding __hash__ hash every piece of state their matrix() reads.
"""

from __future__ import annotations

import ast
from fractions import Fraction

from .. import trigdom as T
from ..core import AnalysisError, Report, norm
from ..index import FuncInfo, has_decorator

BASE = "pennylane/core/operator/base.py"
OP2 = "pennylane/core/operator/operator2.py"
CTRL = "pennylane/ops/op_math/controlled.py"
QS = "pennylane/core/qscript.py"
MEAS = "pennylane/core/measurements.py"

# named exceptions (DESIGN 2.3: every minority is listed with a reason) -------------------------
MP_EXEMPT = {
    "ShadowExpvalMP": "shot-only measurement (classical shadows are sampled; no analytic execution to cache)",
}
OPSTATE_EXEMPT = {
    ("ParametrizedEvolution", "dense"): "selects the dense/sparse representation of the Hamiltonian inside the solver, not a value "
                                        "of the evolution: both settings compute the same matrix",
}
# members of the operator base classes that are functions of state the rule already follows
GENERIC_MEMBERS = {"name", "_name", "wires", "_wires", "num_wires", "batch_size", "_batch_size", "ndim_params", "num_params",
                   "has_matrix", "compute_matrix", "is_abstract", "__class__", "pauli_rep", "_pauli_rep", "id", "_id"}  # fmt: skip


# =============================================================================================
# R-C05-period


def pi_multiple(node):
    """``k * np.pi`` / ``np.pi * k`` / ``np.pi`` / ``k * pi`` -> Fraction k (None otherwise)."""
    def is_pi(n):
        return (isinstance(n, ast.Attribute) and n.attr == "pi") or (isinstance(n, ast.Name) and n.id == "pi")

    def num(n):
        if isinstance(n, ast.Constant) and isinstance(n.value, (int, float)) and not isinstance(n.value, bool):
            c = T.cx_of(n.value)
            return None if c is None else c.re
        if isinstance(n, ast.BinOp) and isinstance(n.op, (ast.Div, ast.Mult)):
            a, b = num(n.left), num(n.right)
            if a is None or b is None or (isinstance(n.op, ast.Div) and not b):
                return None
            return a / b if isinstance(n.op, ast.Div) else a * b
        return None

    if is_pi(node):
        return Fraction(1)
    if isinstance(node, ast.BinOp) and isinstance(node.op, ast.Mult):
        for a, b in ((node.left, node.right), (node.right, node.left)):
            k = pi_multiple(b)
            v = num(a)
            if k is not None and v is not None:
                return v * k
    if isinstance(node, ast.BinOp) and isinstance(node.op, ast.Div):
        k, v = pi_multiple(node.left), num(node.right)
        if k is not None and v:
            return k / v
    return None


# ---- a small partial evaluator: modulus_for(name) of a hashing / canonicalising function ----------


class _V:
    """abstract values: ('pi', Fraction) | ('none',) | ('str', s) | ('bool', b) | ('num', Fraction) |
    ('dict', {key: value}) | ('seq', [values]) | UNKNOWN"""


UNKNOWN = ("?",)
NONE = ("none",)


def _truth(v):
    if v[0] == "bool":
        return v[1]
    if v[0] == "none":
        return False
    if v[0] == "pi":
        return bool(v[1])
    if v[0] == "str":
        return bool(v[1])
    if v[0] == "num":
        return bool(v[1])
    if v[0] in ("dict", "seq"):
        return bool(v[1])
    return None


class ModulusEval:
    """Evaluates one function with its operator-name expression bound to a concrete string and
    records every right operand of a ``%`` that can be reached: [(value, tainted)].  ``tainted``:
    reached through a condition that mentions the name and could not be evaluated."""

    MAX_STEPS = 20000

    def __init__(self, ix, f: FuncInfo, name_texts, name):
        self.ix, self.f, self.name_texts, self.name = ix, f, name_texts, name
        self.records = []
        self.steps = 0
        self.depth = 0

    # -- expressions
    def mentions_name(self, node):
        txt = norm(node)
        return any(t in txt for t in self.name_texts)

    def module_value(self, module, name, seen=()):
        vals = module.all_assigns.get(name, [])
        if len(vals) != 1 or (module.relpath, name) in seen:
            r = self.ix.resolve_expr(module, ast.Name(id=name, ctx=ast.Load()))
            if isinstance(r, tuple) and r[0] == "value" and r[1] is not module:
                home = next((nm for nm, vs in r[1].all_assigns.items() if any(v is r[2] for v in vs)), None)
                if home:
                    return self.module_value(r[1], home, seen + ((module.relpath, name),))
            return UNKNOWN
        # a table that is also mutated at module level is not a constant
        for st in module.tree.body:
            for n in ast.walk(st) if not isinstance(st, (ast.FunctionDef, ast.ClassDef)) else ():
                if isinstance(n, ast.Subscript) and isinstance(n.ctx, (ast.Store, ast.Del)) and isinstance(n.value, ast.Name) and n.value.id == name:
                    return UNKNOWN
                if isinstance(n, ast.Call) and isinstance(n.func, ast.Attribute) and isinstance(n.func.value, ast.Name) and n.func.value.id == name \
                        and n.func.attr in ("update", "pop", "setdefault", "clear", "popitem", "append", "extend", "add", "remove"):
                    return UNKNOWN
        sub = ModulusEval(self.ix, FuncInfo(module, self.f.node), (), None)
        sub.module = module
        return sub.eval(vals[0], {}, module=module, seen=seen + ((module.relpath, name),))

    def eval(self, node, env, module=None, seen=()):
        self.steps += 1
        if self.steps > self.MAX_STEPS:
            return UNKNOWN
        module = module or self.f.module
        if self.name is not None and norm(node) in self.name_texts:
            return ("str", self.name)
        k = pi_multiple(node)
        if k is not None:
            return ("pi", k)
        if isinstance(node, ast.Constant):
            v = node.value
            if v is None:
                return NONE
            if isinstance(v, bool):
                return ("bool", v)
            if isinstance(v, str):
                return ("str", v)
            if isinstance(v, (int, float)):
                c = T.cx_of(v)
                return ("num", c.re) if c is not None else UNKNOWN
            return UNKNOWN
        if isinstance(node, ast.Name):
            if node.id in env:
                return env[node.id]
            return self.module_value(module, node.id, seen)
        if isinstance(node, (ast.Tuple, ast.List, ast.Set)):
            return ("seq", [self.eval(e, env, module, seen) for e in node.elts])
        if isinstance(node, ast.Dict):
            d = {}
            for kk, vv in zip(node.keys, node.values):
                if kk is None:
                    m = self.eval(vv, env, module, seen)
                    if m[0] != "dict":
                        return UNKNOWN
                    d.update(m[1])
                else:
                    kv = self.eval(kk, env, module, seen)
                    if kv[0] != "str":
                        return UNKNOWN
                    d[kv[1]] = self.eval(vv, env, module, seen)
            return ("dict", d)
        if isinstance(node, ast.BinOp) and isinstance(node.op, ast.BitOr):
            a, b = self.eval(node.left, env, module, seen), self.eval(node.right, env, module, seen)
            if a[0] == "dict" and b[0] == "dict":
                return ("dict", {**a[1], **b[1]})
            return UNKNOWN
        if isinstance(node, ast.UnaryOp) and isinstance(node.op, ast.Not):
            t = _truth(self.eval(node.operand, env, module, seen))
            return UNKNOWN if t is None else ("bool", not t)
        if isinstance(node, ast.BoolOp):
            vals = [self.eval(v, env, module, seen) for v in node.values]
            is_and = isinstance(node.op, ast.And)
            for v in vals:  # Python value semantics, left to right
                t = _truth(v)
                if t is None:
                    # an unknown operand: the result is known only if a later operand decides it
                    rest = [_truth(x) for x in vals]
                    if is_and and any(x is False for x in rest):
                        return ("bool", False)
                    if not is_and and any(x is True for x in rest) and all(x is not None for x in rest[: rest.index(True)]):
                        return vals[rest.index(True)]
                    return UNKNOWN
                if (is_and and not t) or (not is_and and t):
                    return v
            return vals[-1]
        if isinstance(node, ast.Compare) and len(node.ops) == 1:
            a, b = self.eval(node.left, env, module, seen), self.eval(node.comparators[0], env, module, seen)
            op = node.ops[0]
            if isinstance(op, (ast.Is, ast.IsNot)):
                if b == NONE and a[0] != "?":
                    r = a == NONE
                    return ("bool", r if isinstance(op, ast.Is) else not r)
                return UNKNOWN
            if isinstance(op, (ast.Eq, ast.NotEq)):
                if a[0] in ("str", "none", "num", "pi") and b[0] in ("str", "none", "num", "pi"):
                    return ("bool", (a == b) if isinstance(op, ast.Eq) else (a != b))
                return UNKNOWN
            if isinstance(op, (ast.In, ast.NotIn)):
                if b[0] == "dict":
                    keys = [("str", x) for x in b[1]]
                elif b[0] == "seq":
                    keys = b[1]
                    if any(x[0] == "?" for x in keys):
                        return UNKNOWN
                else:
                    return UNKNOWN
                if a[0] == "?":
                    return UNKNOWN
                r = a in keys
                return ("bool", r if isinstance(op, ast.In) else not r)
            return UNKNOWN
        if isinstance(node, ast.IfExp):
            t = _truth(self.eval(node.test, env, module, seen))
            if t is None:
                a, b = self.eval(node.body, env, module, seen), self.eval(node.orelse, env, module, seen)
                return a if a == b else UNKNOWN
            return self.eval(node.body if t else node.orelse, env, module, seen)
        if isinstance(node, ast.Subscript):
            tv, kv = self.eval(node.value, env, module, seen), self.eval(node.slice, env, module, seen)
            if tv[0] == "dict" and kv[0] == "str" and kv[1] in tv[1]:
                return tv[1][kv[1]]
            return UNKNOWN
        if isinstance(node, ast.Call):
            fn = norm(node.func)
            args = node.args
            if fn == "dict.fromkeys" and 1 <= len(args) <= 2 and not node.keywords:
                ks = self.eval(args[0], env, module, seen)
                v = self.eval(args[1], env, module, seen) if len(args) == 2 else NONE
                if ks[0] in ("seq", "dict"):
                    keys = ks[1] if ks[0] == "seq" else [("str", x) for x in ks[1]]
                    if all(x[0] == "str" for x in keys):
                        return ("dict", {x[1]: v for x in keys})
                return UNKNOWN
            if fn == "dict":
                d = {}
                if len(args) > 1:
                    return UNKNOWN
                if args:
                    m = self.eval(args[0], env, module, seen)
                    if m[0] == "dict":
                        d.update(m[1])
                    elif m[0] == "seq" and all(x[0] == "seq" and len(x[1]) == 2 and x[1][0][0] == "str" for x in m[1]):
                        d.update({x[1][0][1]: x[1][1] for x in m[1]})
                    else:
                        return UNKNOWN
                for kw in node.keywords:
                    if kw.arg is None:
                        m = self.eval(kw.value, env, module, seen)
                        if m[0] != "dict":
                            return UNKNOWN
                        d.update(m[1])
                    else:
                        d[kw.arg] = self.eval(kw.value, env, module, seen)
                return ("dict", d)
            if fn in ("tuple", "list", "set", "frozenset", "sorted") and len(args) == 1:
                m = self.eval(args[0], env, module, seen)
                if m[0] == "seq":
                    return m
                if m[0] == "dict":
                    return ("seq", [("str", x) for x in m[1]])
                return UNKNOWN
            if isinstance(node.func, ast.Attribute) and node.func.attr == "get" and 1 <= len(args) <= 2:
                tv = self.eval(node.func.value, env, module, seen)
                kv = self.eval(args[0], env, module, seen)
                if tv[0] == "dict" and kv[0] in ("str", "none"):
                    if kv[0] == "str" and kv[1] in tv[1]:
                        return tv[1][kv[1]]
                    return self.eval(args[1], env, module, seen) if len(args) == 2 else NONE
                return UNKNOWN
            return UNKNOWN
        return UNKNOWN

    # -- reachability scan for `%`
    def scan(self, node, env, taint, local_defs):
        """visit every sub-expression that can be evaluated on some run; record `%` moduli."""
        self.steps += 1
        if self.steps > self.MAX_STEPS or node is None:
            return
        if isinstance(node, ast.IfExp):
            self.scan(node.test, env, taint, local_defs)
            t = _truth(self.eval(node.test, env))
            t2 = taint or (t is None and self.mentions_name_env(node.test, env))
            if t is not False:
                self.scan(node.body, env, t2, local_defs)
            if t is not True:
                self.scan(node.orelse, env, t2, local_defs)
            return
        if isinstance(node, ast.BinOp) and isinstance(node.op, ast.Mod):
            left_is_str = isinstance(node.left, (ast.Constant, ast.JoinedStr)) and not isinstance(getattr(node.left, "value", 0), (int, float))
            if not left_is_str:
                self.records.append((self.eval(node.right, env), taint, node))
        if isinstance(node, ast.Call) and isinstance(node.func, ast.Name) and node.func.id in local_defs and self.depth < 4:
            g = local_defs[node.func.id]
            a = g.args
            params = [x.arg for x in a.posonlyargs + a.args]
            sub = dict(env)
            for pn, an in zip(params, node.args):
                sub[pn] = self.eval(an, env)
            for kw in node.keywords:
                if kw.arg in params:
                    sub[kw.arg] = self.eval(kw.value, env)
            for pn in params[len(node.args):]:
                sub.setdefault(pn, UNKNOWN) if pn not in {kw.arg for kw in node.keywords} else None
            self.depth += 1
            self.run(g.body, sub, taint, dict(local_defs))
            self.depth -= 1
        if isinstance(node, (ast.Lambda, ast.FunctionDef, ast.AsyncFunctionDef, ast.ClassDef)):
            return
        if isinstance(node, (ast.ListComp, ast.SetComp, ast.GeneratorExp, ast.DictComp)):
            sub = dict(env)
            for g in node.generators:
                self.scan(g.iter, sub, taint, local_defs)
                for nm in ast.walk(g.target):
                    if isinstance(nm, ast.Name):
                        sub[nm.id] = UNKNOWN
                for c in g.ifs:
                    self.scan(c, sub, taint, local_defs)
            for part in ([node.key, node.value] if isinstance(node, ast.DictComp) else [node.elt]):
                self.scan(part, sub, taint, local_defs)
            return
        for ch in ast.iter_child_nodes(node):
            if isinstance(ch, ast.expr) or isinstance(ch, (ast.keyword, ast.comprehension)):
                self.scan(ch, env, taint, local_defs)

    def mentions_name_env(self, node, env):
        if self.mentions_name(node):
            return True
        # a variable that was computed from the name (mod_val = TABLE.get(op_name)) and is unknown
        return any(isinstance(n, ast.Name) and env.get(n.id) == UNKNOWN and n.id in self._name_derived for n in ast.walk(node))

    _name_derived = frozenset()

    # -- statements;  returns True when every path has returned/raised
    def run(self, stmts, env, taint, local_defs):
        for st in stmts:
            self.steps += 1
            if self.steps > self.MAX_STEPS:
                return False
            if isinstance(st, (ast.FunctionDef, ast.AsyncFunctionDef)):
                local_defs[st.name] = st
                continue
            if isinstance(st, ast.Assign):
                self.scan(st.value, env, taint, local_defs)
                v = self.eval(st.value, env)
                for t in st.targets:
                    for nm in ast.walk(t):
                        if isinstance(nm, ast.Name) and isinstance(nm.ctx, ast.Store):
                            env[nm.id] = v if isinstance(t, ast.Name) else UNKNOWN
                            if self.mentions_name_env(st.value, env):
                                self._name_derived = self._name_derived | {nm.id}
                continue
            if isinstance(st, ast.AnnAssign) and st.value is not None and isinstance(st.target, ast.Name):
                self.scan(st.value, env, taint, local_defs)
                env[st.target.id] = self.eval(st.value, env)
                continue
            if isinstance(st, ast.AugAssign):
                self.scan(st.value, env, taint, local_defs)
                if isinstance(st.op, ast.Mod):
                    self.records.append((self.eval(st.value, env), taint, st))
                if isinstance(st.target, ast.Name):
                    env[st.target.id] = UNKNOWN
                continue
            if isinstance(st, ast.Return):
                self.scan(st.value, env, taint, local_defs)
                return True
            if isinstance(st, ast.Raise):
                return True
            if isinstance(st, ast.Expr):
                self.scan(st.value, env, taint, local_defs)
                continue
            if isinstance(st, ast.If):
                self.scan(st.test, env, taint, local_defs)
                t = _truth(self.eval(st.test, env))
                if t is True:
                    if self.run(st.body, env, taint, local_defs):
                        return True
                elif t is False:
                    if self.run(st.orelse, env, taint, local_defs):
                        return True
                else:
                    t2 = taint or self.mentions_name_env(st.test, env)
                    e1, e2 = dict(env), dict(env)
                    r1 = self.run(st.body, e1, t2, local_defs)
                    r2 = self.run(st.orelse, e2, t2, local_defs)
                    if r1 and r2:
                        return True
                    outs = [e for e, r in ((e1, r1), (e2, r2)) if not r]
                    for kx in set().union(*[set(o) for o in outs]):
                        vs = [o.get(kx, UNKNOWN) for o in outs]
                        env[kx] = vs[0] if all(v == vs[0] for v in vs) else UNKNOWN
                        if t2 and env[kx] == UNKNOWN:
                            self._name_derived = self._name_derived | {kx}
                continue
            # loops / with / try / match: visit everything once, forget assigned names
            for n in ast.walk(st):
                if isinstance(n, ast.Name) and isinstance(n.ctx, ast.Store):
                    env[n.id] = UNKNOWN
            for field in ("iter", "test", "subject"):
                if getattr(st, field, None) is not None:
                    self.scan(getattr(st, field), env, taint, local_defs)
            for it in getattr(st, "items", []) or []:
                self.scan(it.context_expr, env, taint, local_defs)
            for field in ("body", "orelse", "finalbody"):
                body = getattr(st, field, None)
                if isinstance(body, list) and body and isinstance(body[0], ast.stmt):
                    self.run(body, env, taint, local_defs)
            for h in getattr(st, "handlers", []) or []:
                self.run(h.body, env, taint, local_defs)
            for case in getattr(st, "cases", []) or []:
                self.run(case.body, env, True, local_defs)
        return False


def name_expressions(ix, f: FuncInfo):
    """expressions of ``f`` that hold an operator name: compared with string literals / used as the key
    of a table of strings.  -> {normalised text: expr}"""
    a = f.node.args
    params = {x.arg for x in a.posonlyargs + a.args + a.kwonlyargs}
    ev = ModulusEval(ix, f, (), None)

    def is_table(node):
        v = ev.eval(node, {})
        return v[0] == "dict" and v[1] and True or (v[0] == "seq" and v[1] and all(x[0] == "str" for x in v[1]))

    def ok(e):
        return (isinstance(e, ast.Attribute) and e.attr == "name") or (isinstance(e, ast.Name) and e.id in params)

    out = {}
    for n in ast.walk(f.node):
        cands = []
        if isinstance(n, ast.Compare) and len(n.ops) == 1:
            l, r = n.left, n.comparators[0]
            if isinstance(n.ops[0], (ast.In, ast.NotIn)) and is_table(r):
                cands.append(l)
            if isinstance(n.ops[0], (ast.Eq, ast.NotEq)):
                if isinstance(r, ast.Constant) and isinstance(r.value, str):
                    cands.append(l)
                if isinstance(l, ast.Constant) and isinstance(l.value, str):
                    cands.append(r)
        elif isinstance(n, ast.Call) and isinstance(n.func, ast.Attribute) and n.func.attr == "get" and n.args and is_table(n.func.value):
            cands.append(n.args[0])
        elif isinstance(n, ast.Subscript) and isinstance(n.ctx, ast.Load) and is_table(n.value):
            cands.append(n.slice)
        for e in cands:
            if ok(e):
                out[norm(e)] = e
    return out


def mentioned_strings(ix, f: FuncInfo):
    """string literals of the function and keys/members of the module-level tables it reads."""
    out = set()
    ev = ModulusEval(ix, f, (), None)
    for n in ast.walk(f.node):
        if isinstance(n, ast.Constant) and isinstance(n.value, str) and n.value.isidentifier():
            out.add(n.value)
        elif isinstance(n, ast.Name) and isinstance(n.ctx, ast.Load):
            v = ev.module_value(f.module, n.id) if n.id in f.module.all_assigns or n.id in f.module.names else UNKNOWN
            if v[0] == "dict":
                out |= set(v[1])
            elif v[0] == "seq":
                out |= {x[1] for x in v[1] if x[0] == "str"}
    return out


def modulus_map(ix, f: FuncInfo, candidate_names):
    """-> (name-expression or None, {name: [(k | None=unevaluable, tainted)]}) for names that are reduced"""
    nexprs = name_expressions(ix, f)
    if not nexprs:
        return None, {}
    if not any(isinstance(n, (ast.BinOp, ast.AugAssign)) and isinstance(n.op, ast.Mod) for n in ast.walk(f.node)):
        return None, {}
    texts = tuple(nexprs)
    out = {}
    for name in sorted(candidate_names | mentioned_strings(ix, f)):
        ev = ModulusEval(ix, f, texts, name)
        a = f.node.args
        env = {x.arg: UNKNOWN for x in a.posonlyargs + a.args + a.kwonlyargs if x.arg not in texts}
        ev.run(f.node.body, env, False, {})
        recs = []
        for v, taint, _node in ev.records:
            if v[0] == "pi":
                recs.append((v[1], taint))
            elif v[0] == "none":
                continue  # `% None` is guarded in the source (x if mod is None else x % mod)
            elif v[0] == "?":
                recs.append((None, True))
            # a numeric/str right operand (x % 2, "fmt" % args) is not a parameter period
        if recs:
            out[name] = sorted(set(recs), key=lambda r: (r[0] is None, r[0] or 0, r[1]))
    # a modulus that every name gets (e.g. an unrelated `% n`) is not a name table
    first = next(iter(nexprs.values()))
    return first, out


def _applicable_owner(ix, f: FuncInfo, tested):
    """Which operator classes can reach the table?  -> ('any', None) | ('subclasses', ClassInfo) | ('unknown', why)"""
    txt = norm(tested)
    if txt.endswith(".base.name"):
        return "any", None  # the wrapped operator of a symbolic wrapper: any operator class
    if txt == "self.name" and f.cls is not None:
        return "subclasses", f.cls
    root = tested
    while isinstance(root, ast.Attribute):
        root = root.value
    a = f.node.args
    params = [x.arg for x in a.posonlyargs + a.args]
    if isinstance(root, ast.Name) and root.id in params and f.cls is None and f.parent is None:
        pos = params.index(root.id)
        want = "self" if isinstance(tested, ast.Attribute) else "self.name"
        owners = []
        for g in ix.funcs_in(f.module):
            if g.cls is None:
                continue
            for c in ast.walk(g.node):
                if isinstance(c, ast.Call) and isinstance(c.func, ast.Name) and c.func.id == f.name:
                    arg = c.args[pos] if len(c.args) > pos else next((kw.value for kw in c.keywords if kw.arg == root.id), None)
                    if arg is not None and norm(arg) == want and g.cls not in owners:
                        owners.append(g.cls)
        if len(owners) == 1:
            return "subclasses", owners[0]
        if owners:
            return "unknown", "called from several classes"
    return "unknown", f"cannot tell which operators reach `{txt}`"


def check_period(ix, rep):
    rule = "R-C05-period"
    anchors = [ix.func(BASE, "_process_data"), ix.func(OP2, "_canonicalize_dynamic"), ix.func(CTRL, "Controlled.__hash__")]
    # discover further name->modulus maps by construct anywhere in the operator core / ops
    cands = list(anchors)
    for m in ix.modules.values():
        if not m.relpath.startswith(("pennylane/core/", "pennylane/ops/")) or "pi" not in m.source or "%" not in m.source:
            continue
        for f in ix.funcs_in(m):
            if f not in cands and f.parent is None:
                cands.append(f)
    n_funcs = n_names = n_entries = n_decided = 0
    by_name = {}
    for c in ix.classes:
        if T.is_operator_class(c) and T.resolve_compute_matrix(c)[1] is not None:
            by_name.setdefault(c.name, []).append(c)
    # names worth asking about: operator classes for which E4 has an exact period in some parameter
    exact_names = set()
    for name, cs in by_name.items():
        for c in cs:
            info = T.analyse_matrix(ix, c)
            if any(s.freqs is not None and s.exact and T.period(s) is not None for s in info.support.values()):
                exact_names.add(name)
    SENTINEL = "__no_such_operator__"
    for f in cands:
        tested, mmap = modulus_map(ix, f, exact_names | {SENTINEL})
        if SENTINEL in mmap:
            # a `%` that is applied whatever the name is: not a per-gate canonicalisation
            generic = set(mmap[SENTINEL])
            mmap = {n: [r for r in recs if r not in generic] for n, recs in mmap.items()}
            mmap = {n: recs for n, recs in mmap.items() if recs}
        if f in anchors and not any(k is not None for recs in mmap.values() for k, _ in recs):
            # the per-gate canonicalisation was written in a form this rule does not evaluate (table in a module constant, modulus
            # chosen in a helper, …): undecided, neither a pass of the instances confirmed on the pinned tree nor an alarm
            rep.unknown(rule, f"{f.module.relpath}:{f.qualname}", "no operator name evaluates to a modulus: the name -> modulus canonicalisation "
                        "is written in a form this rule does not follow; the period obligations of this function are not decided")
            continue
        if not mmap:
            continue
        n_funcs += 1
        rep.analysed(f.module.relpath, f.qualname)
        kind, owner = _applicable_owner(ix, f, tested)
        for name, recs in sorted(mmap.items()):
            n_names += 1
            classes = by_name.get(name, [])
            for k, tainted in recs:
                ktxt = "?" if k is None else f"{k}*pi"
                where0 = f"{f.module.relpath}:{f.qualname}[{name} % {ktxt}]"
                if k is None:
                    rep.unknown(rule, where0, "the modulus applied for this name could not be evaluated")
                    continue
                if not classes:
                    rep.unknown(rule, where0, f"no operator class named {name!r} with a compute_matrix")
                    continue
                for c in classes:
                    if kind == "unknown":
                        rep.unknown(rule, where0, owner)
                        continue
                    if kind == "subclasses" and owner not in c.mro():
                        rep.exempt(rule, where0, f"dead entry: {c.name} is not a subclass of {owner.name}, whose hash uses this table")
                        continue
                    info = T.analyse_matrix(ix, c)
                    rep.analysed(info.node.module.relpath, info.node.qualname)
                    for p in info.params:
                        n_entries += 1
                        sup = info.support.get(p)
                        where = f"{f.module.relpath}:{f.qualname}[{name}.{p} % {k}*pi]"
                        if sup is None or sup.freqs is None:
                            rep.unknown(rule, where, f"support of {c.name}.compute_matrix in {p} is Top ({info.why})")
                            continue
                        per = T.period(sup)
                        if per is None or (k / per).denominator == 1:
                            n_decided += 1
                            rep.proved(rule, where, f"F={sup!r}: matrix period {'none (constant)' if per is None else str(per) + '*pi'} divides {k}*pi")
                        elif sup.exact and not tainted:
                            n_decided += 1
                            rep.refuted(rule, f.module.relpath, f.qualname, f"{name}.{p} % ({k}*pi)",
                                        f"{name}: parameter `{p}` is reduced mod {k}*pi before hashing (evaluating {f.qualname} with "
                                        f"{norm(tested)} == {name!r}), but "
                                        f"{c.name}.compute_matrix has the exact Fourier support {sup!r} in `{p}`, i.e. the matrix (global phase "
                                        f"included) has period {per}*pi: {p} and {p}+{k}*pi give different matrices (sign flip) yet equal hashes, so "
                                        "a cached result is returned for a different circuit whenever the phase is observable (inside ctrl/wrappers, "
                                        "qp.state())", line=f.node.lineno, gate=name, param=p, modulus=str(k), period=str(per))
                        elif tainted:
                            rep.unknown(rule, where, "reached through a name-dependent condition that could not be evaluated")
                        else:
                            rep.unknown(rule, where, f"F={sup!r} is an over-approximation: period {per}*pi vs modulus {k}*pi cannot be decided")
    rep.floor("hashing functions with a name -> modulus canonicalisation", n_funcs, 3)
    rep.floor("(function, gate name) pairs that evaluate to a modulus", n_names, 24)
    rep.floor("(function, gate, parameter) entries reaching a hash", n_entries, 25)
    rep.floor("period obligations decided (proved or refuted)", n_decided, 25)


# =============================================================================================
# reads of self.<attr> (shared by the three state rules)


def self_reads(node, selfname="self"):
    """names X loaded as ``self.X``; hyperparameter keys as ``hp:<k>`` (``hp:*`` = wholesale);
    ``__iter__`` when ``self`` itself is iterated."""
    out = set()
    parents = {}
    for p in ast.walk(node):
        for ch in ast.iter_child_nodes(p):
            parents[ch] = p
    for n in ast.walk(node):
        if isinstance(n, ast.Attribute) and isinstance(n.value, ast.Name) and n.value.id == selfname and isinstance(n.ctx, ast.Load):
            if n.attr in ("hyperparameters", "_hyperparameters"):
                par = parents.get(n)
                if isinstance(par, ast.Subscript) and par.value is n and isinstance(par.slice, ast.Constant) and isinstance(par.slice.value, str):
                    out.add("hp:" + par.slice.value)
                else:
                    out.add("hp:*")
            else:
                out.add(n.attr)
        elif isinstance(n, ast.Name) and n.id == selfname and isinstance(n.ctx, ast.Load):
            par = parents.get(n)
            if isinstance(par, (ast.For, ast.comprehension)) and par.iter is n:
                out.add("__iter__")
            elif isinstance(par, ast.Call) and isinstance(par.func, ast.Name) and par.func.id in ("iter", "list", "tuple", "len") and n in par.args:
                out.add("__iter__")
    return out


def leaves(cls, names, depth=4, _seen=None):
    """expand member names through the methods/properties of the class hierarchy down to stored
    attributes and hyperparameter keys.  -> (leaves, every name met on the way)"""
    _seen = set() if _seen is None else _seen
    out, met = set(), set()
    for nm in names:
        if nm in GENERIC_MEMBERS:
            continue  # capability flags / identity members: guards, not values
        met.add(nm)
        if nm.startswith("hp:") or nm in _seen:
            out.add(nm)
            continue
        dc, member = cls.lookup(nm) if not nm.startswith("hp:") else (None, None)
        if isinstance(member, FuncInfo) and depth > 0 and dc is not None and dc.fq not in T.BASE_STOP:
            sub, m2 = leaves(cls, self_reads(member.node), depth - 1, _seen | {nm})
            met |= m2
            out |= sub  # a member that reads no instance state (static helper) contributes nothing
        else:
            out.add(nm)
    return out, met


def stored_in_init(cls, attr):
    for c in cls.mro():
        init = c.own_method("__init__")
        if init is None:
            continue
        for n in ast.walk(init.node):
            if isinstance(n, ast.Attribute) and isinstance(n.ctx, ast.Store) and isinstance(n.value, ast.Name) and n.value.id == "self" and n.attr == attr:
                return c
            if attr.startswith("hp:") and isinstance(n, ast.Subscript) and isinstance(n.ctx, ast.Store) and isinstance(n.slice, ast.Constant) \
                    and n.slice.value == attr[3:] and isinstance(n.value, ast.Attribute) and n.value.attr in ("hyperparameters", "_hyperparameters"):
                return c
    return None


# =============================================================================================
# R-C05-fingerprint


def check_fingerprint(ix, rep):
    rule = "R-C05-fingerprint"
    qs = ix.cls(QS, "QuantumScript")
    init = qs.own_method("__init__")
    h = qs.own_method("hash")
    if init is None or h is None:
        raise AnalysisError("QuantumScript.__init__/hash vanished")
    rep.analysed(QS, "QuantumScript.__init__")
    rep.analysed(QS, "QuantumScript.hash")
    a = init.node.args
    params = [x.arg for x in a.posonlyargs + a.args + a.kwonlyargs][1:]
    stored = {}
    for n in ast.walk(init.node):
        if isinstance(n, ast.Assign):
            for t in n.targets:
                if isinstance(t, ast.Attribute) and isinstance(t.value, ast.Name) and t.value.id == "self":
                    for nm in ast.walk(n.value):
                        if isinstance(nm, ast.Name) and nm.id in params:
                            stored.setdefault(nm.id, []).append((t.attr, n))
    hl, hmet = leaves(qs, self_reads(h.node))
    read = hl | hmet
    n_ok = 0
    for p in params:
        where = f"{QS}:QuantumScript.__init__({p})"
        if p not in stored:
            rep.unknown(rule, where, "constructor input is not stored by a plain self.<attr> = ... assignment")
            continue
        attrs = [at for at, _ in stored[p]]
        if any(at in read for at in attrs):
            n_ok += 1
            rep.proved(rule, where, f"stored as {attrs}, read by hash")
        else:
            rep.refuted(rule, QS, "QuantumScript.hash", stored[p][0][1],
                        f"constructor input `{p}` is stored as self.{attrs[0]} but QuantumScript.hash reads neither it nor a property returning it: "
                        "two scripts differing only in this field share a cache key", param=p)
    rep.floor("QuantumScript constructor inputs read by hash", n_ok, 4)


# =============================================================================================
# R-C05-mpstate


def check_mpstate(ix, rep):
    rule = "R-C05-mpstate"
    MP = ix.cls(MEAS, "MeasurementProcess")
    base_init = MP.own_method("__init__")
    base_attrs = {n.attr for n in ast.walk(base_init.node) if isinstance(n, ast.Attribute) and isinstance(n.ctx, ast.Store)
                  and isinstance(n.value, ast.Name) and n.value.id == "self"} if base_init else set()
    n_cls = n_attr = 0
    for c in ix.classes:
        if c is MP or MP not in c.mro():
            continue
        analytic = any(k.name in ("StateMeasurement", "MeasurementTransform") for k in c.mro()) or \
            c.own_method("process_state") is not None or c.own_method("process_density_matrix") is not None
        if not analytic:
            continue
        n_cls += 1
        own = []
        for k in c.mro():
            if k is MP:
                break
            init = k.own_method("__init__")
            if init is None:
                continue
            for n in ast.walk(init.node):
                if isinstance(n, ast.Attribute) and isinstance(n.ctx, ast.Store) and isinstance(n.value, ast.Name) and n.value.id == "self" \
                        and n.attr not in base_attrs and n.attr not in own:
                    own.append(n.attr)
        if not own:
            rep.proved(rule, f"{c.module.relpath}:{c.name}", "adds no state to MeasurementProcess", nontrivial=False)
            continue
        rep.analysed(c.module.relpath, f"{c.name}.__init__")
        dc, h = c.lookup("__hash__")
        hl, hmet = leaves(c, self_reads(h.node)) if isinstance(h, FuncInfo) else (set(), set())
        read = hl | hmet
        for at in own:
            where = f"{c.module.relpath}:{c.name}.{at}"
            if c.name in MP_EXEMPT:
                rep.exempt(rule, where, MP_EXEMPT[c.name])
                continue
            n_attr += 1
            if at in read:
                rep.proved(rule, where, f"read by {dc.name}.__hash__")
            else:
                rep.refuted(rule, c.module.relpath, f"{c.name}.{at}", f"self.{at}",
                            f"{c.name}.__init__ stores self.{at}, which the resolved __hash__ ({dc.name}.__hash__) does not read: measurements "
                            f"differing only in {at} hash equal, so tape.hash and the result cache cannot tell them apart", line=c.node.lineno)
    rep.floor("analytic measurement classes", n_cls, 13)
    rep.floor("measurement attributes checked against __hash__", n_attr, 3)


# =============================================================================================
# R-C05-opstate


def check_opstate(ix, rep):
    rule = "R-C05-opstate"
    legacy = ix.cls(BASE, "Operator")
    n_cls = n_reads = 0
    for c in ix.classes:
        if legacy not in c.mro() or c.fq in T.BASE_STOP:
            continue
        h = c.own_method("__hash__")
        if h is None:
            continue
        dc, mat = c.lookup("matrix", stop_at=T.BASE_STOP)
        if not isinstance(mat, FuncInfo) or has_decorator(mat.node, "staticmethod"):
            rep.exempt(rule, f"{c.module.relpath}:{c.name}", "overrides __hash__ but defines no matrix() below the base class")
            continue
        n_cls += 1
        rep.analysed(c.module.relpath, f"{c.name}.__hash__")
        rep.analysed(dc.module.relpath, f"{dc.name}.matrix")
        ml, _ = leaves(c, self_reads(mat.node))
        hl, hmet = leaves(c, self_reads(h.node))
        covered = hl | hmet
        for x in sorted(ml):
            where = f"{c.module.relpath}:{c.name}.matrix <- {x}"
            if x in GENERIC_MEMBERS or x == "hp:*":
                continue
            n_reads += 1
            if x in covered or (x.startswith("hp:") and "hp:*" in covered):
                rep.proved(rule, where, "read by __hash__ (directly, through a property, or through hash(sub-operator))")
                continue
            if (c.name, x) in OPSTATE_EXEMPT:
                rep.exempt(rule, where, OPSTATE_EXEMPT[(c.name, x)])
                continue
            member = c.lookup(x)[1] if not x.startswith("hp:") else None
            if isinstance(member, FuncInfo) and not has_decorator(member.node, "property", "cached_property"):
                n_reads -= 1
                continue  # a method of the base classes (not state)
            if member is not None:
                rep.unknown(rule, where, "member of the class hierarchy that reads no instance state the rule can follow")
                continue
            sc = stored_in_init(c, x)
            if sc is None:
                rep.unknown(rule, where, "attribute whose store the rule cannot find in an __init__ of the hierarchy")
                continue
            rep.refuted(rule, c.module.relpath, f"{c.name}.__hash__", f"self.{x}" if not x.startswith("hp:") else f"hyperparameters[{x[3:]!r}]",
                        f"{dc.name}.matrix() reads {'self.' + x if not x.startswith('hp:') else 'hyperparameter ' + x[3:]!s} (stored by {sc.name}.__init__) "
                        f"but {c.name}.__hash__ does not: operators with different matrices share a hash and therefore a cache entry",
                        line=h.node.lineno)
    rep.floor("legacy operator classes overriding __hash__ with a matrix()", n_cls, 6)
    rep.floor("matrix state reads compared with __hash__", n_reads, 15)


def check(ctx):
    ix = ctx.index
    rep = Report("C05", "soundness of the cache key: every component that can change an analytic result is in tape.hash, and the "
                 "canonicalisation of parameters only merges values the operator's full matrix cannot distinguish.")
    rep.rule("R-C05-period", "for every (gate-name set -> modulus) table used when hashing parameters (found by construct: an if-test "
             "`<x>.name in (<strings>)` whose branch sets/uses a multiple of pi as a `%` modulus) and every listed gate that can reach "
             "the table and every parameter: modulus mod period(compute_matrix, phase included) == 0 (E4 exact support needed to refute)")
    rep.rule("R-C05-fingerprint", "QuantumScript.hash reads, directly or through the property returning it, every attribute in which "
             "QuantumScript.__init__ stores a constructor input")
    rep.rule("R-C05-mpstate", "for every MeasurementProcess subclass usable analytically, every attribute its __init__ adds to the base "
             "class's is read by the __hash__ it resolves to (named shot-only exceptions: " + ", ".join(MP_EXEMPT) + ")")
    rep.rule("R-C05-opstate", "for legacy Operator subclasses overriding __hash__: every stored attribute / hyperparameter key the class's "
             "matrix() reads (through its own helper methods and properties) is read by __hash__, directly, through a property or through "
             "hash(self.base)/hash(operand)")
    rep.assume("op.name is the class __name__; _cache_transform keys on tape.hash only; E4 assumptions (scalar parameters, non-zero unknown constants)")
    check_period(ix, rep)
    check_fingerprint(ix, rep)
    check_mpstate(ix, rep)
    check_opstate(ix, rep)
    from .c05_extra import extra, memo_hash, order_and_stale

    extra(ctx, rep)
    order_and_stale(ctx, rep)
    memo_hash(ctx, rep)
    return rep
