"""C05 — result caching never changes results: soundness of the cache key.

R-C05-period       every (gate-name set -> modulus) table used when hashing parameters reduces a
                   parameter only by a multiple of the period of the gate's full matrix (E4 trigdom).
R-C05-fingerprint  QuantumScript.hash reads every stored constructor input.
R-C05-mpstate      analytic measurement processes hash every attribute their __init__ adds.
R-C05-opstate      legacy operators overriding __hash__ hash every piece of state their matrix() reads.
"""

from __future__ import annotations

import ast
from fractions import Fraction

from .. import trigdom as T
from ..core import AnalysisError, Report, norm
from ..index import FuncInfo, has_decorator

BASE = "pennylane/core/operator/base.py"
OP2 = "pennylane/core/operator/operator2.py"
CTRL = "pennylane/ops/op_math/controlled.py"
QS = "pennylane/core/qscript.py"
MEAS = "pennylane/core/measurements.py"

# named exceptions (DESIGN 2.3: every minority is listed with a reason) -------------------------
MP_EXEMPT = {
    "ShadowExpvalMP": "shot-only measurement (classical shadows are sampled; no analytic execution to cache)",
}
OPSTATE_EXEMPT = {
    ("ParametrizedEvolution", "dense"): "selects the dense/sparse representation of the Hamiltonian inside the solver, not a value "
                                        "of the evolution: both settings compute the same matrix",
}
# members of the operator base classes that are functions of state the rule already follows
GENERIC_MEMBERS = {"name", "_name", "wires", "_wires", "num_wires", "batch_size", "_batch_size", "ndim_params", "num_params",
                   "has_matrix", "compute_matrix", "is_abstract", "__class__", "pauli_rep", "_pauli_rep", "id", "_id"}  # fmt: skip


# =============================================================================================
# R-C05-period


def pi_multiple(node):
    """``k * np.pi`` / ``np.pi * k`` / ``np.pi`` / ``k * pi`` -> Fraction k (None otherwise)."""
    def is_pi(n):
        return (isinstance(n, ast.Attribute) and n.attr == "pi") or (isinstance(n, ast.Name) and n.id == "pi")

    def num(n):
        if isinstance(n, ast.Constant) and isinstance(n.value, (int, float)) and not isinstance(n.value, bool):
            c = T.cx_of(n.value)
            return None if c is None else c.re
        if isinstance(n, ast.BinOp) and isinstance(n.op, (ast.Div, ast.Mult)):
            a, b = num(n.left), num(n.right)
            if a is None or b is None or (isinstance(n.op, ast.Div) and not b):
                return None
            return a / b if isinstance(n.op, ast.Div) else a * b
        return None

    if is_pi(node):
        return Fraction(1)
    if isinstance(node, ast.BinOp) and isinstance(node.op, ast.Mult):
        for a, b in ((node.left, node.right), (node.right, node.left)):
            k = pi_multiple(b)
            v = num(a)
            if k is not None and v is not None:
                return v * k
    if isinstance(node, ast.BinOp) and isinstance(node.op, ast.Div):
        k, v = pi_multiple(node.left), num(node.right)
        if k is not None and v:
            return k / v
    return None


def _name_table(test):
    """``<expr> in (<str>, ...)`` somewhere in an if-test -> (expr, [names], compare node)."""
    for n in ast.walk(test):
        if isinstance(n, ast.Compare) and len(n.ops) == 1 and isinstance(n.ops[0], ast.In):
            c = n.comparators[0]
            if isinstance(c, (ast.Tuple, ast.List, ast.Set)) and c.elts and all(isinstance(e, ast.Constant) and isinstance(e.value, str) for e in c.elts):
                return n.left, [e.value for e in c.elts], n
    return None


def _modulus_in(body):
    """first modulus of the branch: ``v = k*pi`` (used by a later ``%``) or ``... % (k*pi)``."""
    for st in body:
        for n in ast.walk(st):
            if isinstance(n, ast.Assign) and len(n.targets) == 1 and isinstance(n.targets[0], ast.Name):
                k = pi_multiple(n.value)
                if k is not None:
                    return k, n.targets[0].id, n
            if isinstance(n, ast.BinOp) and isinstance(n.op, ast.Mod):
                k = pi_multiple(n.right)
                if k is not None:
                    return k, None, n
    return None


def modulus_tables(f: FuncInfo):
    """every (names -> modulus) entry of a function: [(tested expr, names, k, var, if-node)]"""
    out = []
    has_mod = any(isinstance(n, ast.BinOp) and isinstance(n.op, ast.Mod) for n in ast.walk(f.node))
    for n in ast.walk(f.node):
        if not isinstance(n, ast.If):
            continue
        nt = _name_table(n.test)
        if nt is None:
            continue
        m = _modulus_in(n.body)
        if m is None:
            continue
        k, var, mnode = m
        if var is not None and not has_mod:
            continue  # the constant never reaches a `%`
        out.append((nt[0], nt[1], k, n, mnode))
    return out


def _applicable_owner(ix, f: FuncInfo, tested):
    """Which operator classes can reach the table?  -> ('any', None) | ('subclasses', ClassInfo) | ('unknown', why)"""
    txt = norm(tested)
    if txt.endswith(".base.name"):
        return "any", None  # the wrapped operator of a symbolic wrapper: any operator class
    if txt == "self.name" and f.cls is not None:
        return "subclasses", f.cls
    root = tested
    while isinstance(root, ast.Attribute):
        root = root.value
    a = f.node.args
    params = [x.arg for x in a.posonlyargs + a.args]
    if isinstance(root, ast.Name) and root.id in params and f.cls is None and f.parent is None:
        pos = params.index(root.id)
        want = "self" if isinstance(tested, ast.Attribute) else "self.name"
        owners = []
        for g in ix.funcs_in(f.module):
            if g.cls is None:
                continue
            for c in ast.walk(g.node):
                if isinstance(c, ast.Call) and isinstance(c.func, ast.Name) and c.func.id == f.name:
                    arg = c.args[pos] if len(c.args) > pos else next((kw.value for kw in c.keywords if kw.arg == root.id), None)
                    if arg is not None and norm(arg) == want and g.cls not in owners:
                        owners.append(g.cls)
        if len(owners) == 1:
            return "subclasses", owners[0]
        if owners:
            return "unknown", "called from several classes"
    return "unknown", f"cannot tell which operators reach `{txt}`"


def check_period(ix, rep):
    rule = "R-C05-period"
    anchors = [ix.func(BASE, "_process_data"), ix.func(OP2, "_canonicalize_dynamic"), ix.func(CTRL, "Controlled.__hash__")]
    # discover further tables by construct anywhere in the operator core / op_math / ops
    cands = list(anchors)
    for m in ix.modules.values():
        if not m.relpath.startswith(("pennylane/core/", "pennylane/ops/")) or "pi" not in m.source or "%" not in m.source:
            continue
        for f in ix.funcs_in(m):
            if f not in cands and f.parent is None:
                cands.append(f)
    n_tables = n_entries = n_decided = 0
    by_name = {}
    for c in ix.classes:
        if T.is_operator_class(c):
            by_name.setdefault(c.name, []).append(c)
    for f in cands:
        tabs = modulus_tables(f)
        if f in anchors and not tabs:
            raise AnalysisError(f"{f.module.relpath}:{f.qualname}: the (gate names -> modulus) table is no longer recognised")
        if not tabs:
            continue
        rep.analysed(f.module.relpath, f.qualname)
        for tested, names, k, ifnode, mnode in tabs:
            n_tables += 1
            kind, owner = _applicable_owner(ix, f, tested)
            for name in names:
                classes = [c for c in by_name.get(name, []) if T.resolve_compute_matrix(c)[1] is not None]
                where0 = f"{f.module.relpath}:{f.qualname}[{name} % {k}*pi]"
                if not classes:
                    rep.unknown(rule, where0, f"no operator class named {name!r} with a compute_matrix")
                    continue
                for c in classes:
                    if kind == "unknown":
                        rep.unknown(rule, where0, owner)
                        continue
                    if kind == "subclasses" and owner not in c.mro():
                        rep.exempt(rule, where0, f"dead entry: {c.name} is not a subclass of {owner.name}, whose hash uses this table")
                        continue
                    info = T.analyse_matrix(ix, c)
                    rep.analysed(info.node.module.relpath, info.node.qualname)
                    for p in info.params:
                        n_entries += 1
                        sup = info.support.get(p)
                        where = f"{f.module.relpath}:{f.qualname}[{name}.{p} % {k}*pi]"
                        if sup is None or sup.freqs is None:
                            rep.unknown(rule, where, f"support of {c.name}.compute_matrix in {p} is Top ({info.why})")
                            continue
                        per = T.period(sup)
                        if per is None or (k / per).denominator == 1:
                            n_decided += 1
                            rep.proved(rule, where, f"F={sup!r}: matrix period {'none (constant)' if per is None else str(per) + '*pi'} divides {k}*pi")
                        elif sup.exact:
                            n_decided += 1
                            rep.refuted(rule, f.module.relpath, f.qualname, f"{name}.{p} % ({k}*pi)",
                                        f"{name}: parameter `{p}` is reduced mod {k}*pi before hashing ({norm(ifnode.test)[:90]}), but "
                                        f"{c.name}.compute_matrix has the exact Fourier support {sup!r} in `{p}`, i.e. the matrix (global phase "
                                        f"included) has period {per}*pi: {p} and {p}+{k}*pi give different matrices (sign flip) yet equal hashes, so "
                                        "a cached result is returned for a different circuit whenever the phase is observable (inside ctrl/wrappers, "
                                        "qp.state())", line=getattr(mnode, "lineno", 0), gate=name, param=p, modulus=str(k), period=str(per))
                        else:
                            rep.unknown(rule, where, f"F={sup!r} is an over-approximation: period {per}*pi vs modulus {k}*pi cannot be decided")
    rep.floor("(gate names -> modulus) tables", n_tables, 4)
    rep.floor("(table, gate, parameter) entries reaching a hash", n_entries, 25)
    rep.floor("period obligations decided (proved or refuted)", n_decided, 25)


# =============================================================================================
# reads of self.<attr> (shared by the three state rules)


def self_reads(node, selfname="self"):
    """names X loaded as ``self.X``; hyperparameter keys as ``hp:<k>`` (``hp:*`` = wholesale);
    ``__iter__`` when ``self`` itself is iterated."""
    out = set()
    parents = {}
    for p in ast.walk(node):
        for ch in ast.iter_child_nodes(p):
            parents[ch] = p
    for n in ast.walk(node):
        if isinstance(n, ast.Attribute) and isinstance(n.value, ast.Name) and n.value.id == selfname and isinstance(n.ctx, ast.Load):
            if n.attr in ("hyperparameters", "_hyperparameters"):
                par = parents.get(n)
                if isinstance(par, ast.Subscript) and par.value is n and isinstance(par.slice, ast.Constant) and isinstance(par.slice.value, str):
                    out.add("hp:" + par.slice.value)
                else:
                    out.add("hp:*")
            else:
                out.add(n.attr)
        elif isinstance(n, ast.Name) and n.id == selfname and isinstance(n.ctx, ast.Load):
            par = parents.get(n)
            if isinstance(par, (ast.For, ast.comprehension)) and par.iter is n:
                out.add("__iter__")
            elif isinstance(par, ast.Call) and isinstance(par.func, ast.Name) and par.func.id in ("iter", "list", "tuple", "len") and n in par.args:
                out.add("__iter__")
    return out


def leaves(cls, names, depth=4, _seen=None):
    """expand member names through the methods/properties of the class hierarchy down to stored
    attributes and hyperparameter keys.  -> (leaves, every name met on the way)"""
    _seen = set() if _seen is None else _seen
    out, met = set(), set()
    for nm in names:
        if nm in GENERIC_MEMBERS:
            continue  # capability flags / identity members: guards, not values
        met.add(nm)
        if nm.startswith("hp:") or nm in _seen:
            out.add(nm)
            continue
        dc, member = cls.lookup(nm) if not nm.startswith("hp:") else (None, None)
        if isinstance(member, FuncInfo) and depth > 0 and dc is not None and dc.fq not in T.BASE_STOP:
            sub, m2 = leaves(cls, self_reads(member.node), depth - 1, _seen | {nm})
            met |= m2
            out |= sub  # a member that reads no instance state (static helper) contributes nothing
        else:
            out.add(nm)
    return out, met


def stored_in_init(cls, attr):
    for c in cls.mro():
        init = c.own_method("__init__")
        if init is None:
            continue
        for n in ast.walk(init.node):
            if isinstance(n, ast.Attribute) and isinstance(n.ctx, ast.Store) and isinstance(n.value, ast.Name) and n.value.id == "self" and n.attr == attr:
                return c
            if attr.startswith("hp:") and isinstance(n, ast.Subscript) and isinstance(n.ctx, ast.Store) and isinstance(n.slice, ast.Constant) \
                    and n.slice.value == attr[3:] and isinstance(n.value, ast.Attribute) and n.value.attr in ("hyperparameters", "_hyperparameters"):
                return c
    return None


# =============================================================================================
# R-C05-fingerprint


def check_fingerprint(ix, rep):
    rule = "R-C05-fingerprint"
    qs = ix.cls(QS, "QuantumScript")
    init = qs.own_method("__init__")
    h = qs.own_method("hash")
    if init is None or h is None:
        raise AnalysisError("QuantumScript.__init__/hash vanished")
    rep.analysed(QS, "QuantumScript.__init__")
    rep.analysed(QS, "QuantumScript.hash")
    a = init.node.args
    params = [x.arg for x in a.posonlyargs + a.args + a.kwonlyargs][1:]
    stored = {}
    for n in ast.walk(init.node):
        if isinstance(n, ast.Assign):
            for t in n.targets:
                if isinstance(t, ast.Attribute) and isinstance(t.value, ast.Name) and t.value.id == "self":
                    for nm in ast.walk(n.value):
                        if isinstance(nm, ast.Name) and nm.id in params:
                            stored.setdefault(nm.id, []).append((t.attr, n))
    hl, hmet = leaves(qs, self_reads(h.node))
    read = hl | hmet
    n_ok = 0
    for p in params:
        where = f"{QS}:QuantumScript.__init__({p})"
        if p not in stored:
            rep.unknown(rule, where, "constructor input is not stored by a plain self.<attr> = ... assignment")
            continue
        attrs = [at for at, _ in stored[p]]
        if any(at in read for at in attrs):
            n_ok += 1
            rep.proved(rule, where, f"stored as {attrs}, read by hash")
        else:
            rep.refuted(rule, QS, "QuantumScript.hash", stored[p][0][1],
                        f"constructor input `{p}` is stored as self.{attrs[0]} but QuantumScript.hash reads neither it nor a property returning it: "
                        "two scripts differing only in this field share a cache key", param=p)
    rep.floor("QuantumScript constructor inputs read by hash", n_ok, 4)


# =============================================================================================
# R-C05-mpstate


def check_mpstate(ix, rep):
    rule = "R-C05-mpstate"
    MP = ix.cls(MEAS, "MeasurementProcess")
    base_init = MP.own_method("__init__")
    base_attrs = {n.attr for n in ast.walk(base_init.node) if isinstance(n, ast.Attribute) and isinstance(n.ctx, ast.Store)
                  and isinstance(n.value, ast.Name) and n.value.id == "self"} if base_init else set()
    n_cls = n_attr = 0
    for c in ix.classes:
        if c is MP or MP not in c.mro():
            continue
        analytic = any(k.name in ("StateMeasurement", "MeasurementTransform") for k in c.mro()) or \
            c.own_method("process_state") is not None or c.own_method("process_density_matrix") is not None
        if not analytic:
            continue
        n_cls += 1
        own = []
        for k in c.mro():
            if k is MP:
                break
            init = k.own_method("__init__")
            if init is None:
                continue
            for n in ast.walk(init.node):
                if isinstance(n, ast.Attribute) and isinstance(n.ctx, ast.Store) and isinstance(n.value, ast.Name) and n.value.id == "self" \
                        and n.attr not in base_attrs and n.attr not in own:
                    own.append(n.attr)
        if not own:
            rep.proved(rule, f"{c.module.relpath}:{c.name}", "adds no state to MeasurementProcess", nontrivial=False)
            continue
        rep.analysed(c.module.relpath, f"{c.name}.__init__")
        dc, h = c.lookup("__hash__")
        hl, hmet = leaves(c, self_reads(h.node)) if isinstance(h, FuncInfo) else (set(), set())
        read = hl | hmet
        for at in own:
            where = f"{c.module.relpath}:{c.name}.{at}"
            if c.name in MP_EXEMPT:
                rep.exempt(rule, where, MP_EXEMPT[c.name])
                continue
            n_attr += 1
            if at in read:
                rep.proved(rule, where, f"read by {dc.name}.__hash__")
            else:
                rep.refuted(rule, c.module.relpath, f"{c.name}.{at}", f"self.{at}",
                            f"{c.name}.__init__ stores self.{at}, which the resolved __hash__ ({dc.name}.__hash__) does not read: measurements "
                            f"differing only in {at} hash equal, so tape.hash and the result cache cannot tell them apart", line=c.node.lineno)
    rep.floor("analytic measurement classes", n_cls, 13)
    rep.floor("measurement attributes checked against __hash__", n_attr, 3)


# =============================================================================================
# R-C05-opstate


def check_opstate(ix, rep):
    rule = "R-C05-opstate"
    legacy = ix.cls(BASE, "Operator")
    n_cls = n_reads = 0
    for c in ix.classes:
        if legacy not in c.mro() or c.fq in T.BASE_STOP:
            continue
        h = c.own_method("__hash__")
        if h is None:
            continue
        dc, mat = c.lookup("matrix", stop_at=T.BASE_STOP)
        if not isinstance(mat, FuncInfo) or has_decorator(mat.node, "staticmethod"):
            rep.exempt(rule, f"{c.module.relpath}:{c.name}", "overrides __hash__ but defines no matrix() below the base class")
            continue
        n_cls += 1
        rep.analysed(c.module.relpath, f"{c.name}.__hash__")
        rep.analysed(dc.module.relpath, f"{dc.name}.matrix")
        ml, _ = leaves(c, self_reads(mat.node))
        hl, hmet = leaves(c, self_reads(h.node))
        covered = hl | hmet
        for x in sorted(ml):
            where = f"{c.module.relpath}:{c.name}.matrix <- {x}"
            if x in GENERIC_MEMBERS or x == "hp:*":
                continue
            n_reads += 1
            if x in covered or (x.startswith("hp:") and "hp:*" in covered):
                rep.proved(rule, where, "read by __hash__ (directly, through a property, or through hash(sub-operator))")
                continue
            if (c.name, x) in OPSTATE_EXEMPT:
                rep.exempt(rule, where, OPSTATE_EXEMPT[(c.name, x)])
                continue
            member = c.lookup(x)[1] if not x.startswith("hp:") else None
            if isinstance(member, FuncInfo) and not has_decorator(member.node, "property", "cached_property"):
                n_reads -= 1
                continue  # a method of the base classes (not state)
            if member is not None:
                rep.unknown(rule, where, "member of the class hierarchy that reads no instance state the rule can follow")
                continue
            sc = stored_in_init(c, x)
            if sc is None:
                rep.unknown(rule, where, "attribute whose store the rule cannot find in an __init__ of the hierarchy")
                continue
            rep.refuted(rule, c.module.relpath, f"{c.name}.__hash__", f"self.{x}" if not x.startswith("hp:") else f"hyperparameters[{x[3:]!r}]",
                        f"{dc.name}.matrix() reads {'self.' + x if not x.startswith('hp:') else 'hyperparameter ' + x[3:]!s} (stored by {sc.name}.__init__) "
                        f"but {c.name}.__hash__ does not: operators with different matrices share a hash and therefore a cache entry",
                        line=h.node.lineno)
    rep.floor("legacy operator classes overriding __hash__ with a matrix()", n_cls, 6)
    rep.floor("matrix state reads compared with __hash__", n_reads, 15)


def check(ctx):
    ix = ctx.index
    rep = Report("C05", "soundness of the cache key: every component that can change an analytic result is in tape.hash, and the "
                 "canonicalisation of parameters only merges values the operator's full matrix cannot distinguish.")
    rep.rule("R-C05-period", "for every (gate-name set -> modulus) table used when hashing parameters (found by construct: an if-test "
             "`<x>.name in (<strings>)` whose branch sets/uses a multiple of pi as a `%` modulus) and every listed gate that can reach "
             "the table and every parameter: modulus mod period(compute_matrix, phase included) == 0 (E4 exact support needed to refute)")
    rep.rule("R-C05-fingerprint", "QuantumScript.hash reads, directly or through the property returning it, every attribute in which "
             "QuantumScript.__init__ stores a constructor input")
    rep.rule("R-C05-mpstate", "for every MeasurementProcess subclass usable analytically, every attribute its __init__ adds to the base "
             "class's is read by the __hash__ it resolves to (named shot-only exceptions: " + ", ".join(MP_EXEMPT) + ")")
    rep.rule("R-C05-opstate", "for legacy Operator subclasses overriding __hash__: every stored attribute / hyperparameter key the class's "
             "matrix() reads (through its own helper methods and properties) is read by __hash__, directly, through a property or through "
             "hash(self.base)/hash(operand)")
    rep.assume("op.name is the class __name__; _cache_transform keys on tape.hash only; E4 assumptions (scalar parameters, non-zero unknown constants)")
    check_period(ix, rep)
    check_fingerprint(ix, rep)
    check_mpstate(ix, rep)
    check_opstate(ix, rep)
    return rep
