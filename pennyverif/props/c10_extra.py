"""R-C10-mod — angle reductions inside decomposition rules and their helpers keep the operator.

Hooked from c10.py with ``from .c10_extra import extra; extra(ctx, rep)``.
"""

from __future__ import annotations

from .. import modrule
from .. import trigdom as T

RULE = "R-C10-mod"
ALWAYS = ("pennylane/ops/op_math/decompositions/", "pennylane/math/decomposition.py")


def _decomp_module(m):
    return m.relpath.startswith(ALWAYS) or "register_resources" in m.source


def _in_operator_method(f):
    g = f
    while g is not None:
        if g.cls is not None:
            return T.is_operator_class(g.cls)
        g = g.parent
    return False


def extra(ctx, rep):
    ix = ctx.index
    rep.rule(RULE, "for every `x % (k*pi)` in a decomposition rule or helper function (modules that use register_resources, "
             "ops/op_math/decompositions/, math/decomposition.py; methods of operator classes belong to R-C03-mod) whose value reaches the "
             "angle argument of a resolved gate constructor G(p=...): k*pi is an integer multiple of the exact E4 matrix period of G.p; "
             "otherwise the emitted gate differs from the intended one by a sign and the rule no longer implements its operator exactly")
    sites = [s for s in modrule.scan_modulo_sites(ix, _decomp_module) if not _in_operator_method(s.func)]
    n_sites, n_sinks, n_proved = modrule.report_sites(ix, rep, RULE, sites)
    rep.floor("angle reductions (% k*pi) in decomposition rules/helpers", n_sites, 8)
    rep.floor("(reduction, gate parameter) sinks in decomposition rules/helpers", n_sinks, 10)
    rep.floor("R-C10-mod sinks proved", n_proved, 10)
    return rep
