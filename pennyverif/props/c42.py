"""C42 — program capture round-trips quantum functions (writer/reader agreement on primitives).

Clause decided: every primitive the statement names is *understood* by every interpreter on the
capture -> tape path with the parameter names it is bound with.  A missing or misnamed parameter
is a TypeError / NotImplementedError for every program that uses the primitive.

Everything is discovered by construct: primitives by the place that creates them (a factory
function returning ``XPrimitive("name")`` or a module-level variable), bind sites by resolving
the receiver of ``<expr>.bind(...)``, handlers by resolving the argument of
``@<Interpreter>.register_primitive(<expr>)``, implementations by ``@<expr>.def_impl`` /
``@<expr>.def_abstract_eval``.  No line numbers, no file lists.
"""

from __future__ import annotations

import ast

from .. import sigbind
from ..astutil import call_name, enclosing_map
from ..core import AnalysisError, Report, norm
from ..index import ClassInfo, FuncInfo

INTERP = "pennylane/capture/base_interpreter.py"
TAPE = "pennylane/tape/plxpr_conversion.py"

# The primitives the statement names (for/while loops, conditionals, adjoint/ctrl transforms,
# subroutines, mid-circuit measurements, dynamic allocation), by the name they register with jax.
STATEMENT = {
    "for_loop": "for_loop",
    "while_loop": "while_loop",
    "cond": "cond",
    "adjoint_transform": "adjoint_transform",
    "ctrl_transform": "ctrl_transform",
    "quantum_subroutine_prim": "quantum_subroutine",
    "measure": "measure",
    "pauli_measure": "pauli_measure",
    "allocate": "allocate",
    "deallocate": "deallocate",
}


class Prim:
    def __init__(self, key, name, module, where):
        self.key = key
        self.name = name  # the name given to the jax primitive
        self.module = module
        self.where = where  # factory function / variable
        self.sites = []  # (module, scope qualname, call node, stmt)
        self.readers = []  # Reader
        self.prim_type = None  # (value, module, node)
        self.staging = []  # (module, lambda node, keys)

    @property
    def label(self):
        return STATEMENT.get(self.name, self.name)


class Reader:
    def __init__(self, kind, module, qualname, node, interp=None, interp_cls=None):
        self.kind = kind  # handler | def_impl | def_abstract_eval | table
        self.module = module
        self.qualname = qualname
        self.node = node
        self.interp = interp  # text of the interpreter expression
        self.interp_cls = interp_cls  # ClassInfo when resolved

    @property
    def skip_first(self):
        return self.kind in ("handler", "table")

    def describe(self):
        if self.kind == "handler":
            return f"{self.interp} handler {self.qualname}"
        if self.kind == "table":
            return f"{self.interp} entry {self.qualname}"
        return f"{self.kind} {self.qualname}"


# ---------------------------------------------------------------------------------------------
# scopes


class Scopes:
    """name resolution through function-local assignments / imports, then the module"""

    def __init__(self, ix):
        self.ix = ix
        self._parents = {}
        self._locals = {}

    def parents(self, module):
        if module not in self._parents:
            self._parents[module] = enclosing_map(module.tree)
        return self._parents[module]

    def chain(self, module, node):
        """enclosing FunctionDef nodes of ``node``, innermost first"""
        par = self.parents(module)
        out = []
        n = par.get(node)
        while n is not None:
            if isinstance(n, (ast.FunctionDef, ast.AsyncFunctionDef)):
                out.append(n)
            n = par.get(n)
        return out

    def qualname(self, module, node):
        par = self.parents(module)
        parts = []
        n = node if isinstance(node, (ast.FunctionDef, ast.AsyncFunctionDef, ast.ClassDef)) else par.get(node)
        while n is not None:
            if isinstance(n, (ast.FunctionDef, ast.AsyncFunctionDef, ast.ClassDef)):
                parts.append(n.name)
            n = par.get(n)
        return ".".join(reversed(parts)) or "<module>"

    def local_bindings(self, fn):
        """name -> list of ('assign', value) | ('import', ImportFrom, alias) | ('other',) bound directly in fn"""
        if fn in self._locals:
            return self._locals[fn]
        out = {}
        a = fn.args
        for x in a.posonlyargs + a.args + a.kwonlyargs + ([a.vararg] if a.vararg else []) + ([a.kwarg] if a.kwarg else []):
            out.setdefault(x.arg, []).append(("param",))
        stack = list(fn.body)
        while stack:
            n = stack.pop()
            if isinstance(n, (ast.FunctionDef, ast.AsyncFunctionDef, ast.ClassDef)):
                out.setdefault(n.name, []).append(("def", n))
                continue
            if isinstance(n, ast.Lambda):
                continue
            if isinstance(n, ast.Assign):
                for t in n.targets:
                    if isinstance(t, ast.Name):
                        out.setdefault(t.id, []).append(("assign", n.value))
                    else:
                        for m in ast.walk(t):
                            if isinstance(m, ast.Name) and isinstance(m.ctx, ast.Store):
                                out.setdefault(m.id, []).append(("other",))
            elif isinstance(n, ast.AnnAssign) and isinstance(n.target, ast.Name) and n.value is not None:
                out.setdefault(n.target.id, []).append(("assign", n.value))
            elif isinstance(n, ast.ImportFrom):
                for al in n.names:
                    out.setdefault(al.asname or al.name, []).append(("import", n, al))
            elif isinstance(n, ast.Import):
                for al in n.names:
                    out.setdefault((al.asname or al.name).split(".")[0], []).append(("other",))
            elif isinstance(n, (ast.For, ast.AsyncFor, ast.With, ast.AsyncWith, ast.NamedExpr, ast.comprehension, ast.ExceptHandler)):
                tgts = []
                if isinstance(n, (ast.For, ast.AsyncFor, ast.comprehension)):
                    tgts = [n.target]
                elif isinstance(n, (ast.With, ast.AsyncWith)):
                    tgts = [i.optional_vars for i in n.items if i.optional_vars is not None]
                elif isinstance(n, ast.NamedExpr):
                    tgts = [n.target]
                elif n.name:
                    out.setdefault(n.name, []).append(("other",))
                for t in tgts:
                    for m in ast.walk(t):
                        if isinstance(m, ast.Name):
                            out.setdefault(m.id, []).append(("other",))
            stack.extend(ast.iter_child_nodes(n))
        self._locals[fn] = out
        return out

    def lookup(self, module, chain, name):
        """-> ('local', fn, bindings) for the innermost function binding ``name``, else ('module',)"""
        for fn in chain:
            b = self.local_bindings(fn).get(name)
            if b:
                return ("local", fn, b)
        return ("module",)


# ---------------------------------------------------------------------------------------------
# primitive discovery


def _is_primitive_ctor(call: ast.Call):
    cn = call_name(call) or ""
    return cn.split(".")[-1].endswith("Primitive") and call.args and isinstance(call.args[0], ast.Constant) \
        and isinstance(call.args[0].value, str)


class Registry:
    def __init__(self, ix):
        self.ix = ix
        self.scopes = Scopes(ix)
        self.prims = {}  # key -> Prim
        self.factories = {}  # FunctionDef node -> key
        self.factory_var = {}  # FunctionDef node -> local variable name
        self._discover()

    def _discover(self):
        ix = self.ix
        for m in ix.modules.values():
            if "Primitive(" not in m.source and "pjit_p" not in m.source:
                continue
            # factories: def f(): p = XPrimitive("name"); ...; return p
            for f in ix.funcs_in(m):
                if f.parent is not None or f.cls is not None:
                    continue
                b = self.scopes.local_bindings(f.node)
                for var, binds in b.items():
                    ctor = [v for k, *rest in binds if k == "assign" for v in rest if isinstance(v, ast.Call) and _is_primitive_ctor(v)]
                    if len(ctor) != 1 or len(binds) != 1:
                        continue
                    returns = [n for n in ast.walk(f.node) if isinstance(n, ast.Return) and isinstance(n.value, ast.Name) and n.value.id == var]
                    if returns and self.scopes.chain(m, returns[0])[0] is f.node:
                        key = ("factory", f.fq)
                        self.prims[key] = Prim(key, ctor[0].args[0].value, m, f.qualname)
                        self.factories[f.node] = key
                        self.factory_var[f.node] = var
            # module-level variables (also under if/try): p = XPrimitive("name") / p = deepcopy(other_p); p.name = "..."
            for var, values in m.all_assigns.items():
                calls = [v for v in values if isinstance(v, ast.Call)]
                ctor = [v for v in calls if _is_primitive_ctor(v)]
                if ctor:
                    key = ("var", m.relpath, var)
                    self.prims[key] = Prim(key, ctor[0].args[0].value, m, var)
                    continue
                if calls and all(isinstance(v, ast.Call) or (isinstance(v, ast.Constant) and v.value is None) for v in values):
                    # renamed copy of a foreign primitive:  p = copy.deepcopy(q); p.name = "lit"
                    for n in ast.walk(m.tree):
                        if isinstance(n, ast.Assign) and len(n.targets) == 1 and isinstance(n.targets[0], ast.Attribute) and n.targets[0].attr == "name" \
                                and isinstance(n.targets[0].value, ast.Name) and n.targets[0].value.id == var \
                                and isinstance(n.value, ast.Constant) and isinstance(n.value.value, str) \
                                and not self.scopes.chain(m, n):
                            key = ("var", m.relpath, var)
                            self.prims[key] = Prim(key, n.value.value, m, var)

    # ---- resolution -----------------------------------------------------------------------------
    def _from_value(self, module, chain, value, depth=0):
        """primitive key of the value expression of an assignment (a factory call)"""
        if isinstance(value, ast.Call) and not value.args and not value.keywords:
            r = self._resolve_callable(module, chain, value.func)
            if isinstance(r, FuncInfo) and r.node in self.factories:
                return self.factories[r.node]
        if isinstance(value, (ast.Name, ast.Attribute)) and depth < 4:
            return self.resolve(module, chain, value, depth + 1)
        return None

    def _resolve_callable(self, module, chain, expr):
        if isinstance(expr, ast.Name):
            r = self.scopes.lookup(module, chain, expr.id)
            if r[0] == "local":
                binds = r[2]
                if len(binds) == 1 and binds[0][0] == "import":
                    _k, st, al = binds[0]
                    return self.ix.resolve_dotted(f"{self.ix._abs_from(module, st)}.{al.name}")
                return None
        return self.ix.resolve_expr(module, expr)

    def resolve(self, module, chain, expr, depth=0):
        """primitive key denoted by ``expr`` evaluated in the scope ``chain`` of ``module``"""
        ix = self.ix
        if isinstance(expr, ast.Name):
            r = self.scopes.lookup(module, chain, expr.id)
            if r[0] == "local":
                _l, fn, binds = r
                if len(binds) != 1:
                    return None
                b = binds[0]
                if b[0] == "assign":
                    v = b[1]
                    if isinstance(v, ast.Call) and _is_primitive_ctor(v) and fn in self.factories and self.factory_var[fn] == expr.id:
                        return self.factories[fn]
                    inner = chain[chain.index(fn):]
                    return self._from_value(module, inner, v, depth)
                if b[0] == "import":
                    _k, st, al = b
                    base = ix._abs_from(module, st)
                    bm = ix.modules.get(base)
                    if bm is None:
                        return None
                    return self._module_name(bm, al.name)
                return None
        parts = _dotted(expr)
        if not parts:
            return None
        # walk modules along the dotted path; the last component is a module-level name
        if len(parts) == 1:
            return self._module_name(module, parts[0])
        head = ix.resolve_expr(module, _mk_dotted(parts[:-1]))
        from ..index import Module

        if isinstance(head, Module):
            return self._module_name(head, parts[-1])
        return None

    def _module_name(self, m, name, depth=0):
        """primitive key of the module-level name ``name`` of module ``m`` (following imports)"""
        if depth > 8:
            return None
        key = ("var", m.relpath, name)
        if key in self.prims:
            return key
        b = m.names.get(name)
        if b is None:
            for star in m.star_imports:
                sm = self.ix.modules.get(star)
                if sm is not None and sm is not m:
                    r = self._module_name(sm, name, depth + 1)
                    if r is not None:
                        return r
            return None
        kind, val = b
        if kind == "from":
            base, nm = val
            bm = self.ix.modules.get(base)
            if bm is None or (bm is m and nm == name):
                return None
            return self._module_name(bm, nm, depth + 1)
        if kind == "assign":
            for v in m.all_assigns.get(name, [val]):
                k = self._from_value(m, [], v)
                if k is not None:
                    return k
        return None


def _dotted(expr):
    parts = []
    while isinstance(expr, ast.Attribute):
        parts.append(expr.attr)
        expr = expr.value
    if isinstance(expr, ast.Name):
        parts.append(expr.id)
        return parts[::-1]
    return None


def _mk_dotted(parts):
    e = ast.Name(id=parts[0], ctx=ast.Load())
    for p in parts[1:]:
        e = ast.Attribute(value=e, attr=p, ctx=ast.Load())
    return e


# ---------------------------------------------------------------------------------------------


def _stmt_of(parents, node):
    n = node
    while n is not None and not isinstance(n, ast.stmt):
        n = parents.get(n)
    return n


def _collect(reg: Registry, rep):
    ix = reg.ix
    sc = reg.scopes
    n_unresolved_bind = 0
    for m in ix.modules.values():
        src = m.source
        if not (".bind(" in src or "register_primitive" in src or ".def_impl" in src or ".def_abstract_eval" in src
                or "prim_type" in src or "register_custom_staging_rule" in src or "Primitives[" in src):
            continue
        parents = sc.parents(m)
        for n in ast.walk(m.tree):
            # ---- bind sites
            if isinstance(n, ast.Call) and isinstance(n.func, ast.Attribute) and n.func.attr == "bind":
                chain = sc.chain(m, n)
                key = reg.resolve(m, chain, n.func.value)
                if key is not None:
                    reg.prims[key].sites.append((m, sc.qualname(m, n), n, _stmt_of(parents, n)))
                else:
                    n_unresolved_bind += 1
            # ---- staging rule reading params["k"]
            elif isinstance(n, ast.Call) and (call_name(n) or "").split(".")[-1] == "register_custom_staging_rule" and len(n.args) >= 1:
                key = reg.resolve(m, sc.chain(m, n), n.args[0])
                if key is not None:
                    for lam in list(n.args[1:]) + [k.value for k in n.keywords]:
                        if isinstance(lam, ast.Lambda) and len(lam.args.args) == 1 and lam.args.args[0].arg == "params":
                            p = lam.args.args[0].arg
                            keys = {s.slice.value for s in ast.walk(lam.body) if isinstance(s, ast.Subscript) and isinstance(s.value, ast.Name)
                                    and s.value.id == p and isinstance(s.slice, ast.Constant) and isinstance(s.slice.value, str)}
                            if keys:
                                reg.prims[key].staging.append((m, n, keys))
            # ---- handlers / implementations
            elif isinstance(n, (ast.FunctionDef, ast.AsyncFunctionDef)):
                chain = sc.chain(m, n)
                for d in n.decorator_list:
                    if isinstance(d, ast.Call) and isinstance(d.func, ast.Attribute) and d.func.attr == "register_primitive" and len(d.args) == 1:
                        key = reg.resolve(m, chain, d.args[0])
                        if key is None:
                            continue
                        icls = None
                        r = reg._resolve_callable(m, chain, d.func.value) if isinstance(d.func.value, ast.Name) else ix.resolve_expr(m, d.func.value)
                        if isinstance(r, ClassInfo):
                            icls = r
                        reg.prims[key].readers.append(Reader("handler", m, sc.qualname(m, n), n, norm(d.func.value), icls))
                    else:
                        t = d.func if isinstance(d, ast.Call) else d
                        if isinstance(t, ast.Attribute) and t.attr in ("def_impl", "def_abstract_eval"):
                            key = reg.resolve(m, chain, t.value)
                            if key is not None:
                                reg.prims[key].readers.append(Reader(t.attr, m, sc.qualname(m, n), n))
            # ---- prim_type / handler tables
            elif isinstance(n, ast.Assign) and len(n.targets) == 1:
                t = n.targets[0]
                if isinstance(t, ast.Attribute) and t.attr == "prim_type" and isinstance(n.value, ast.Constant):
                    key = reg.resolve(m, sc.chain(m, n), t.value)
                    if key is not None:
                        reg.prims[key].prim_type = (n.value.value, m, n)
                    elif n.value.value == "higher_order":
                        rep.unknown("R-C42-cover", f"{m.relpath}:{sc.qualname(m, n)} {norm(n)}", "primitive expression not resolved")
                elif isinstance(t, ast.Subscript) and isinstance(t.value, ast.Name) and isinstance(n.value, ast.Name) and not sc.chain(m, n):
                    key = reg.resolve(m, [], t.slice)
                    if key is not None:
                        r = ix.resolve_expr(m, n.value)
                        if isinstance(r, FuncInfo):
                            reg.prims[key].readers.append(Reader("table", m, r.qualname, r.node, t.value.id))
    return n_unresolved_bind


def _rebinds(reg: Registry, module, fn, key):
    """the handler body contains ``<same primitive>.bind(...)``"""
    for n in ast.walk(fn):
        if isinstance(n, ast.Call) and isinstance(n.func, ast.Attribute) and n.func.attr == "bind":
            chain = reg.scopes.chain(module, n)
            if reg.resolve(module, chain, n.func.value) == key:
                return n
    return None


def check(ctx):
    ix = ctx.index
    rep = Report("C42", "every primitive the statement names is understood — with the parameter names it is bound with — by every "
                 "interpreter on the capture -> tape path and by its own implementation / abstract evaluation (a missing or "
                 "misnamed parameter is a TypeError for every program that uses the primitive).")
    rep.rule("R-C42-schema", "for each primitive of the statement, every `prim.bind(...)` site (the capture front ends and the re-binding "
             "interpreters) binds (E6) against the signature of every handler registered with @<Interp>.register_primitive(prim), of every "
             "entry of a handler table, and of the primitive's def_impl / def_abstract_eval; keys a staging rule reads from params are bound")
    rep.rule("R-C42-cover", "every primitive whose prim_type is set to 'higher_order' has a handler registered on PlxprInterpreter; on the "
             "plxpr -> tape path (CollectOpsandMeas) the handler in force for each primitive of the statement exists and does not re-bind "
             "the primitive (it would emit an equation / raise NotImplementedError instead of queuing operators)")
    rep.assume("an interpreter calls its handler as handler(self, *invals, **eqn.params) with one inval per positional bind argument and "
               "eqn.params equal to the keyword arguments of the bind call; jax calls impl/abstract_eval as f(*args, **params)")
    rep.assume("a subclass of an interpreter inherits the registrations made on its ancestors before it was created "
               "(registration order is not modelled)")
    rep.assume("a bind call that passes **params of unknown keys is undecided, never refuted")

    PI = ix.cls(INTERP, "PlxprInterpreter")
    COM = ix.cls(TAPE, "CollectOpsandMeas")
    if PI not in COM.mro():
        raise AnalysisError("CollectOpsandMeas no longer derives from PlxprInterpreter")
    reg = Registry(ix)
    unresolved = _collect(reg, rep)
    rep.extra["bind_calls_on_other_receivers"] = unresolved

    by_name = {}
    for p in reg.prims.values():
        by_name.setdefault(p.name, []).append(p)
    for nm in STATEMENT:
        if nm not in by_name:
            raise AnalysisError(f"primitive '{nm}' of the statement was not found in the package")
    rep.floor("primitives discovered", len(reg.prims), 20)

    # ------------------------------------------------------------------------------- R-C42-schema
    n_pairs = n_sites = n_readers = 0
    for nm, label in STATEMENT.items():
        for P in by_name[nm]:
            rep.analysed(P.module.relpath, P.where)
            sites, readers = P.sites, _dedupe(P.readers)
            n_sites += len(sites)
            n_readers += len(readers)
            if not sites:
                rep.unknown("R-C42-schema", f"{P.module.relpath}:{label}", "no bind site found in the package (bound by jax itself)")
            if not readers:
                rep.unknown("R-C42-schema", f"{P.module.relpath}:{label}", "no handler / implementation found")
            fails = {}  # (site idx, reader idx) -> reason
            for i, (m, qn, call, st) in enumerate(sites):
                rep.analysed(m.relpath, qn)
                cs = sigbind.call_shape(call)
                for j, R in enumerate(readers):
                    rep.analysed(R.module.relpath, R.qualname)
                    n_pairs += 1
                    ok, why = sigbind.bind(cs, R.node, skip_first=R.skip_first)
                    where = f"{label}: {m.relpath}:{qn} -> {R.describe()} ({R.module.relpath})"
                    if ok is False:
                        fails[(i, j)] = why
                    elif ok is True:
                        rep.proved("R-C42-schema", where, f"{cs.describe()} binds")
                    else:
                        rep.unknown("R-C42-schema", where, why)
                for sm, snode, keys in P.staging:
                    missing = keys - cs.kw
                    n_pairs += 1
                    where = f"{label}: {m.relpath}:{qn} -> staging rule ({sm.relpath})"
                    if missing and not cs.kwsplat:
                        rep.refuted("R-C42-schema", m.relpath, qn, st if st is not None else call,
                                    f"{label}: the staging rule registered in {sm.relpath} reads params[{sorted(missing)}] which this bind site "
                                    f"does not pass {cs.describe()}: KeyError when the primitive is staged", primitive=label)
                    else:
                        rep.proved("R-C42-schema", where, "keys read by the staging rule are bound")
            # attribution: a site that disagrees with most readers is the culprit, otherwise the reader
            blamed_sites = set()
            for i, (m, qn, call, st) in enumerate(sites):
                bad = [j for j in range(len(readers)) if (i, j) in fails]
                if bad and len(bad) * 2 > len(readers):
                    blamed_sites.add(i)
                    who = "; ".join(f"{readers[j].describe()}: {fails[(i, j)]}" for j in bad[:6])
                    hs = [j for j in range(len(readers)) if readers[j].skip_first]
                    hbad = [j for j in bad if readers[j].skip_first]
                    extra = (f"all {label} handlers ({len(hs)})" if hs and len(hbad) == len(hs) else f"{len(hbad)} of {len(hs)} {label} handlers")
                    extra += f" and {len(bad) - len(hbad)} of {len(readers) - len(hs)} implementations/abstract evaluations"
                    rep.refuted("R-C42-schema", m.relpath, qn, st if st is not None else call,
                                f"{label}: this bind site passes {sigbind.call_shape(call).describe()}, which {extra} "
                                f"cannot bind — {who}", primitive=label)
            for j, R in enumerate(readers):
                bad = [i for i in range(len(sites)) if (i, j) in fails and i not in blamed_sites]
                if bad:
                    who = "; ".join(f"{sites[i][0].relpath}:{sites[i][1]} passes {sigbind.call_shape(sites[i][2]).describe()}: {fails[(i, j)]}" for i in bad[:4])
                    sig = sigbind.signature(R.node, skip_first=False)
                    rep.refuted("R-C42-schema", R.module.relpath, R.qualname, f"def {R.node.name}{sig.describe()}",
                                f"{label}: {R.describe()} cannot bind the parameters the primitive is bound with — {who}",
                                line=R.node.lineno, primitive=label)
    rep.floor("bind sites of the statement's primitives", n_sites, 15)
    rep.floor("handlers / implementations of the statement's primitives", n_readers, 42)
    rep.floor("(bind site, reader) pairs", n_pairs, 70)

    # ------------------------------------------------------------------------------- R-C42-cover
    # (a) higher-order primitives are handled by the base interpreter
    n_ho = 0
    for P in reg.prims.values():
        if not P.prim_type or P.prim_type[0] != "higher_order":
            continue
        n_ho += 1
        _v, m, node = P.prim_type
        on_base = [R for R in P.readers if R.kind == "handler" and R.interp_cls is PI]
        where = f"{m.relpath}:{P.where} [{P.label}]"
        if on_base:
            rep.proved("R-C42-cover", where, f"PlxprInterpreter handler {on_base[0].qualname}")
        else:
            rep.refuted("R-C42-cover", m.relpath, P.where, node,
                        f"primitive '{P.label}' is declared higher_order but no handler is registered on PlxprInterpreter: the nested jaxpr is "
                        "re-bound unchanged, so no interpreter (transform, plxpr -> tape) ever sees the operations inside it", primitive=P.label)
    rep.floor("higher_order primitives", n_ho, 10)

    # (b) the plxpr -> tape path evaluates, never re-binds
    mro = COM.mro()
    n_tape = 0
    for nm, label in STATEMENT.items():
        for P in by_name[nm]:
            n_tape += 1
            eff = None
            for K in mro:
                hs = [R for R in P.readers if R.kind == "handler" and R.interp_cls is K]
                if hs:
                    eff = (K, hs[-1])
                    break
            where = f"{COM.module.relpath}:CollectOpsandMeas[{label}]"
            if eff is None:
                rep.refuted("R-C42-cover", COM.module.relpath, f"CollectOpsandMeas[{label}]", f"register_primitive({label})",
                            f"no handler for primitive '{label}' is in force for CollectOpsandMeas: eval() falls back to primitive.bind, which "
                            "executes the primitive's implementation instead of recording operators on the tape", line=COM.node.lineno, primitive=label)
                continue
            K, R = eff
            rb = _rebinds(reg, R.module, R.node, P.key)
            if rb is not None:
                rep.refuted("R-C42-cover", COM.module.relpath, f"CollectOpsandMeas[{label}]", f"register_primitive({label})",
                            f"the handler in force for primitive '{label}' on the plxpr -> tape path is {K.name}'s {R.qualname} ({R.module.relpath}), "
                            f"which re-binds the primitive (`{norm(rb)[:60]}…`) instead of evaluating it: plxpr_to_tape would emit an equation, not operators",
                            line=COM.node.lineno, primitive=label)
            else:
                rep.proved("R-C42-cover", where, f"handled by {K.name}'s {R.qualname} without re-binding")
    rep.floor("primitives checked on the plxpr -> tape path", n_tape, 10)

    rep.extra["primitives"] = {P.label: {"defined": f"{P.module.relpath}:{P.where}", "bind_sites": len(P.sites), "readers": len(_dedupe(P.readers))}
                               for nm in STATEMENT for P in by_name[nm]}
    from .c42_extra import ctrlorder, memos, slices

    slices(ctx, rep)
    memos(ctx, rep)
    ctrlorder(ctx, rep)
    return rep


def _dedupe(readers):
    """one reader per function and role (a handler also listed in a table is the same function)"""
    out, seen = [], set()
    for R in readers:
        k = (id(R.node), R.kind if R.kind != "table" else "handler", R.interp if R.kind == "handler" else None)
        if R.kind == "table" and any(id(o.node) == id(R.node) for o in out):
            continue
        if k in seen:
            continue
        seen.add(k)
        out.append(R)
    return out
