"""C18 — transforms never modify their input circuit (effect property, engine E2)."""

from __future__ import annotations

import ast

from ..astutil import call_name
from ..core import Report, norm
from ..effects import CT, TAPE_SPEC, Engine, T
from ..index import FuncInfo

QS = "pennylane/core/qscript.py"
PURE_TAPE_API = ("copy", "__copy__", "bind_new_parameters", "map_to_standard_wires", "adjoint", "get_parameters",
                 "get_operation", "hash", "_flatten", "__iter__", "__getitem__", "__len__", "circuit", "observables",
                 "diagonalizing_gates", "op_wires", "wires", "par_info", "graph", "specs", "draw", "_get_standard_wire_map")


# tape-application plumbing of the transform machinery: (module, function, parameter, tag)
PLUMBING = (
    ("pennylane/core/transforms/transform.py", "_apply_to_tape", "obj", "T"),
    ("pennylane/core/transforms/transform.py", "_apply_to_sequence", "obj", "CT"),
    ("pennylane/core/transforms/compile_pipeline.py", "CompilePipeline.__call_tapes", "tapes", "CT"),
    ("pennylane/tape/tape.py", "rotations_and_diagonal_measurements", "tape", "T"),
    ("pennylane/tape/tape.py", "_validate_computational_basis_sampling", "tape", "T"),
    ("pennylane/io/to_openqasm.py", "_tape_openqasm", "tape", "T"),
)
# named accepted site -> reason; confirmed by reading and by a run-time probe.  Identified by construct, not by text:
# in CompilePipeline.__call_tapes, the store to `.trainable_params` of a tape whose value is indexed out of a local that is
# bound from `self.cotransform_cache.get_argnums(...)`.
ACCEPTED_REASON = (
    "argnums come only from the cotransform cache of a QNode-bound pipeline; the tapes it receives are constructed by the workflow for "
    "that very call (probed: pipelines handed to users carry no cache, and set_classical_component on a foreign pipeline raises before the store)")


def _accepted(f, qual, sink):
    if qual != "CompilePipeline.__call_tapes" or sink.kind != "attr-store":
        return None
    st = sink.node
    if not (isinstance(st, ast.Assign) and len(st.targets) == 1 and isinstance(st.targets[0], ast.Attribute) and st.targets[0].attr == "trainable_params"):
        return None
    v = st.value
    if not (isinstance(v, ast.Subscript) and isinstance(v.value, ast.Name)):
        return None
    src = v.value.id
    defs = [n.value for n in ast.walk(f.node) if isinstance(n, ast.Assign) and any(isinstance(t, ast.Name) and t.id == src for t in n.targets)]
    from_cache = [d for d in defs if "cotransform_cache.get_argnums(" in norm(d)]
    if from_cache and all(d in from_cache or (isinstance(d, ast.Constant) and d.value is None) for d in defs):
        return ACCEPTED_REASON
    return None


def _is_transform_ref(ix, module, e):
    """does expression ``e`` denote the `transform` decorator (or Transform class)?"""
    if isinstance(e, ast.Name) and e.id in ("transform", "Transform"):
        return True
    if isinstance(e, ast.Attribute) and e.attr in ("transform", "Transform"):
        return True
    return False


def transform_roots(ix):
    """[(FuncInfo, how)] for every function that becomes a Transform's tape function or expand_transform."""
    roots = {}
    for f in ix.functions:
        for d in f.node.decorator_list:
            if _is_transform_ref(ix, f.module, d):
                roots[id(f)] = (f, "@transform")
            elif isinstance(d, ast.Call):
                cn = call_name(d) or ""
                if cn.split(".")[-1] == "partial" and d.args and _is_transform_ref(ix, f.module, d.args[0]):
                    roots[id(f)] = (f, "@partial(transform, …)")
                    for kw in d.keywords:
                        if kw.arg == "expand_transform":
                            g = ix.resolve_expr(f.module, kw.value)
                            if isinstance(g, FuncInfo):
                                roots[id(g)] = (g, f"expand_transform of {f.name}")
                elif _is_transform_ref(ix, f.module, d.func):
                    roots[id(f)] = (f, "@transform(…)")
                    for kw in d.keywords:
                        if kw.arg == "expand_transform":
                            g = ix.resolve_expr(f.module, kw.value)
                            if isinstance(g, FuncInfo):
                                roots[id(g)] = (g, f"expand_transform of {f.name}")
    # X = transform(fn, …)
    for m in ix.modules.values():
        if "transform(" not in m.source:
            continue
        for st in m.tree.body:
            if isinstance(st, (ast.Assign, ast.AnnAssign)) and isinstance(st.value, ast.Call) and _is_transform_ref(ix, m, st.value.func):
                cands = list(st.value.args[:1]) + [kw.value for kw in st.value.keywords if kw.arg in ("tape_transform", "expand_transform")]
                for a in cands:
                    g = ix.resolve_expr(m, a)
                    if isinstance(g, FuncInfo):
                        roots[id(g)] = (g, "transform(fn, …)")
    return list(roots.values())


def check(ctx):
    ix = ctx.index
    rep = Report("C18", "no code reachable from a transform's tape function writes to the input QuantumScript, to the lists it "
                 "owns (operations / measurements / trainable_params, which are handed out by reference) or to the operators and "
                 "measurements it owns; the non-mutating QuantumScript API does not write to self either.")
    rep.rule("R-C18-effect", "flow-sensitive alias/effect analysis (tags: input tape, owned list, owned element, element internals, "
             "fresh copies) from the first parameter of every transform function / expand_transform and from `self` of the "
             "non-mutating QuantumScript methods; a statement that writes through a tape/list/element/internal value is a sink; "
             "resolved callees are summarised (mutates / returns-alias) to a bounded depth")
    rep.assume("method calls on operators owned by the tape are resolved by method name over the whole operator hierarchy (every "
               "implementation must leave `self` alone); other unresolved callees (third-party functions, callables passed as arguments) "
               "are effect-free and return fresh objects; lazily filled caches of QuantumScript (_graph, _specs, _batch_size, _obs_sharing_wires*) are not "
               "observable state; `X is not tape` guards are honoured")
    depth = 10 if ctx.thorough else 6
    eng = Engine(ix, TAPE_SPEC, max_depth=depth, dispatch_bases=("Operator", "Operator2", "MeasurementProcess"))
    roots = transform_roots(ix)
    rep.floor("transform tape functions / expand_transforms", len(roots), 100)
    n_sinks = 0
    for f, how in sorted(roots, key=lambda r: (r[0].module.relpath, r[0].node.lineno)):
        a = f.node.args
        params = [x.arg for x in a.posonlyargs + a.args]
        if not params:
            rep.unknown("R-C18-effect", f"{f.module.relpath}:{f.qualname}", "no positional parameter")
            continue
        rep.analysed(f.module.relpath, f.qualname)
        res = eng.analyse(f, {params[0]: {T}})
        if not res.sinks:
            rep.proved("R-C18-effect", f"{f.module.relpath}:{f.qualname} ({how})", "no write reaches the input tape, its lists or its operators")
        for s in res.sinks:
            n_sinks += 1
            rep.refuted("R-C18-effect", f.module.relpath, f.qualname, s.node,
                        f"transform `{f.name}` ({how}): {s.why}; the caller's circuit changes as a side effect of applying the transform",
                        line=s.line, kind=s.kind)
    # QuantumScript's own non-mutating API
    qs = ix.cls(QS, "QuantumScript")
    n_api = 0
    for name in PURE_TAPE_API:
        f = qs.own_method(name)
        if f is None:
            continue
        n_api += 1
        rep.analysed(QS, f.qualname)
        res = eng.analyse(f, {"self": {T}})
        if not res.sinks:
            rep.proved("R-C18-effect", f"{QS}:{f.qualname}", "does not write to self")
        for s in res.sinks:
            rep.refuted("R-C18-effect", QS, f.qualname, s.node,
                        f"QuantumScript.{name} is documented as non-mutating but {s.why}", line=s.line, kind=s.kind)
    rep.floor("non-mutating QuantumScript methods analysed", n_api, 15)
    # the machinery that applies transforms to tapes / batches
    n_pl = 0
    for rel, qual, pname, tag in PLUMBING:
        f = ix.func(rel, qual)
        n_pl += 1
        rep.analysed(rel, qual)
        res = eng.analyse(f, {pname: {T if tag == "T" else CT}})
        live = []
        for s in res.sinks:
            reason = _accepted(f, qual, s)
            if reason:
                rep.exempt("R-C18-effect", f"{rel}:{qual} `{norm(s.node)}`", reason)
            else:
                live.append(s)
        if not live:
            rep.proved("R-C18-effect", f"{rel}:{qual}", "transform application plumbing does not write to the tapes it is given")
        for s in live:
            rep.refuted("R-C18-effect", rel, qual, s.node, f"the transform-application machinery {s.why}", line=s.line)
    rep.floor("transform-application plumbing functions", n_pl, 6)
    rep.extra["engine"] = dict(eng.stats, call_depth=depth, functions_summarised=len(eng.functions_seen))
    rep.floor("functions analysed or summarised by E2", len(eng.functions_seen), 150)
    return rep
