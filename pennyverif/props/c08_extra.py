"""R-C08-swap — the commutation helpers are written for an ordered pair (operation1, operation2) and compute per-operand
facts (control wires, target wires) up front.  A helper that exchanges its two operands ("put the CRot first") must
exchange, or recompute, everything it derived from them before: a fact derived from the old `operation1` and read after
the exchange describes the other operator, and the overlap tests of is_commuting then look at the wrong wires.
"""

from __future__ import annotations

import ast

from ..cfg import walk_shallow
from ..core import norm

MOD = "pennylane/ops/functions/is_commuting.py"
RULE = "R-C08-swap"


def swap(ctx, rep):
    ix = ctx.index
    m = ix.module(MOD)
    rep.rule(RULE, "in ops/functions/is_commuting.py, after a statement that exchanges two operand parameters (`a, b = b, a`), no local that was derived "
             "from exactly one of them before the exchange is read without having been exchanged or recomputed")
    n_fn = n_swaps = 0
    for f in ix.funcs_in(m):
        a = f.node.args
        params = [x.arg for x in a.posonlyargs + a.args]
        if len(params) < 2:
            continue
        n_fn += 1
        stmts = [s for s in walk_shallow(f.node) if isinstance(s, ast.stmt)]
        swaps = [s for s in stmts if isinstance(s, ast.Assign) and len(s.targets) == 1 and isinstance(s.targets[0], ast.Tuple) and isinstance(s.value, ast.Tuple)
                 and len(s.targets[0].elts) == 2 and len(s.value.elts) == 2 and all(isinstance(x, ast.Name) for x in s.targets[0].elts + s.value.elts)
                 and s.targets[0].elts[0].id == s.value.elts[1].id and s.targets[0].elts[1].id == s.value.elts[0].id
                 and s.targets[0].elts[0].id in params and s.targets[0].elts[1].id in params]
        for sw in swaps:
            n_swaps += 1
            rep.analysed(MOD, f.qualname)
            x, y = sw.targets[0].elts[0].id, sw.targets[0].elts[1].id
            # locals derived (transitively) from exactly one of x / y before the swap
            derived = {}
            for s in sorted((s for s in stmts if isinstance(s, ast.Assign) and s.lineno < sw.lineno), key=lambda s: s.lineno):
                if len(s.targets) != 1 or not isinstance(s.targets[0], ast.Name):
                    continue
                used = {n.id for n in ast.walk(s.value) if isinstance(n, ast.Name)}
                src = set()
                for u in used:
                    if u in (x, y):
                        src.add(u)
                    src |= derived.get(u, set())
                if src:
                    derived[s.targets[0].id] = src
            one_sided = {k: next(iter(v)) for k, v in derived.items() if len(v) == 1}
            # exchanged / recomputed after the swap?
            redefined = {}
            for s in stmts:
                if s.lineno <= sw.lineno:
                    continue
                if isinstance(s, ast.Assign):
                    for t in s.targets:
                        for nme in ast.walk(t):
                            if isinstance(nme, ast.Name) and nme.id in one_sided:
                                redefined.setdefault(nme.id, s.lineno)
            stale = None
            for s in stmts:
                if s.lineno <= sw.lineno:
                    continue
                for nme in ast.walk(s):
                    if isinstance(nme, ast.Name) and isinstance(nme.ctx, ast.Load) and nme.id in one_sided and redefined.get(nme.id, 10**9) > nme.lineno:
                        stale = stale or (nme, s)
            where = f"{MOD}:{f.qualname} `{norm(sw)}`"
            if stale:
                nme, s = stale
                rep.refuted(RULE, MOD, f.qualname, sw,
                            f"`{norm(sw)}` exchanges the operands, but `{nme.id}` was computed from `{one_sided[nme.id]}` before the exchange and is read "
                            f"afterwards (`{norm(s)[:70]}`) without being exchanged or recomputed: it now describes the other operator, so the "
                            "wire-overlap logic looks at the wrong wires and non-commuting operators can be reported as commuting", line=sw.lineno)
            else:
                rep.proved(RULE, where, "every per-operand local is exchanged / recomputed before it is read again")
    if not n_swaps:
        rep.proved(RULE, f"{MOD}", f"no helper exchanges its operands ({n_fn} two-operand helpers looked at; a positive example is kept as a self-test variant)",
                   nontrivial=False)
    rep.floor("two-operand helpers of is_commuting.py", n_fn, 8)
