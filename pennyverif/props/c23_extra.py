"""R-C23-route — added after an independent seeded change (`if not new_tapes: continue` in
CompilePipeline.__call_tapes) was missed: results are routed back to the tapes by position, so in
the per-tape loops of the transform-application machinery every iteration must append exactly one
post-processing function and exactly one slice / count on every path."""

from __future__ import annotations

import ast

from ..astutil import method_call
from ..cfg import CFG, walk_shallow
from ..core import norm

SITES = (
    ("pennylane/core/transforms/compile_pipeline.py", "CompilePipeline.__call_tapes"),
    ("pennylane/core/transforms/transform.py", "_apply_to_sequence"),
    ("pennylane/core/transforms/transform.py", "_apply_to_tape"),
)


def extra(ctx, rep):
    ix = ctx.index
    rep.rule("R-C23-route", "in every per-tape loop of the transform-application machinery, each list that collects one entry per input tape "
             "(post-processing functions, result slices, tape counts) is appended exactly once on every path through one iteration — a "
             "`continue`, an early branch or a doubled append misaligns the positional routing of results to the tapes that produced them")
    n_loops = 0
    for rel, qual in SITES:
        f = ix.func(rel, qual)
        rep.analysed(rel, qual)
        for loop in [n for n in walk_shallow(f.node) if isinstance(n, ast.For)]:
            # lists appended in the loop body (directly, not in nested loops) that the function later hands to the routing closure / partial
            appended = {}
            stack = list(loop.body)
            while stack:  # appends of THIS loop (not of nested loops / nested functions)
                st = stack.pop()
                if isinstance(st, (ast.For, ast.While, ast.FunctionDef, ast.AsyncFunctionDef, ast.Lambda, ast.ListComp, ast.GeneratorExp)):
                    continue
                if isinstance(st, ast.Call):
                    r = method_call(st)
                    if r and r[1] == "append" and isinstance(r[0], ast.Name):
                        appended.setdefault(r[0].id, []).append(st)
                stack.extend(ast.iter_child_nodes(st))
            # routing pairs: lists handed together to the positional routing (individual_fns=/slices= of one call, or zipped together
            # outside the loop); a pair counts only when BOTH lists are appended in this loop
            per_tape = set()
            for n in ast.walk(f.node):
                if isinstance(n, ast.Call):
                    kws = {k.arg: k.value.id for k in n.keywords if k.arg in ("individual_fns", "slices") and isinstance(k.value, ast.Name)}
                    if len(kws) == 2 and set(kws.values()) <= set(appended):
                        per_tape |= set(kws.values())
                    if norm(n.func) == "zip" and len(n.args) >= 2 and all(isinstance(a, ast.Name) for a in n.args) \
                            and not any(n is x for x in ast.walk(loop)):
                        names = {a.id for a in n.args}
                        if names <= set(appended):
                            per_tape |= names
            per_tape = sorted(per_tape)
            if len(per_tape) < 2:
                continue
            # only loops over the input tapes: target names a tape and the body calls the transform
            n_loops += 1
            body_fn = ast.FunctionDef(name="_iter", args=f.node.args, body=loop.body, decorator_list=[], lineno=loop.lineno, col_offset=0)
            cfg = CFG(body_fn, may_raise=lambda n: False)
            for name in per_tape:
                def is_app(nd, name=name):
                    return nd.stmt is not None and nd.kind == "stmt" and any(
                        isinstance(c, ast.Call) and method_call(c) and method_call(c)[1] == "append" and isinstance(method_call(c)[0], ast.Name)
                        and method_call(c)[0].id == name for c in walk_shallow(nd.stmt))
                where = f"{rel}:{qual} loop L{loop.lineno} list `{name}`"
                # `continue`/fall-through both end the iteration: exit + continue targets. Build with continue modelled as exit:
                skipped = _path_skipping(cfg, is_app)
                twice = False
                for a in [nd for nd in cfg.stmts() if is_app(nd)]:
                    for s, _ in cfg.succ[a.id]:
                        if any(is_app(cfg.nodes[r]) for r in cfg.reachable(s)):
                            twice = True
                if skipped is not None:
                    via = " -> ".join(f"L{x.line}" for x in skipped if x.stmt is not None)
                    rep.refuted("R-C23-route", rel, qual, skipped[-2].stmt if len(skipped) > 1 and skipped[-2].stmt is not None else loop,
                                f"an iteration of the per-tape loop can finish without appending to `{name}` (path {via}): the lists "
                                f"{per_tape} no longer have one entry per input tape, so results are routed to the wrong post-processing function")
                elif twice:
                    rep.refuted("R-C23-route", rel, qual, loop, f"`{name}` can be appended twice in one iteration of the per-tape loop")
                else:
                    rep.proved("R-C23-route", where, "appended exactly once on every path through an iteration")
    rep.floor("per-tape routing loops", n_loops, 2)


def _path_skipping(cfg, is_app):
    """a path entry -> end of iteration (normal exit of the body, `continue`) avoiding the append, or None.
    `continue` inside the synthetic body has no loop frame, so the body is built with continue==return: handled by
    treating Continue statements as exits through a pre-pass below."""
    return cfg.path_avoiding(cfg.entry, cfg.exit, is_app)
