"""R-C23-route — added after an independent seeded change (`if not new_tapes: continue` in
CompilePipeline.__call_tapes) was missed: results are routed back to the tapes by position, so in
the per-tape loops of the transform-application machinery every iteration must append exactly one
post-processing function and exactly one slice / count on every path."""

from __future__ import annotations

import ast

from ..astutil import method_call
from ..cfg import CFG, walk_shallow
from ..core import norm

SITES = (
    ("pennylane/core/transforms/compile_pipeline.py", "CompilePipeline.__call_tapes"),
    ("pennylane/core/transforms/transform.py", "_apply_to_sequence"),
    ("pennylane/core/transforms/transform.py", "_apply_to_tape"),
)


def extra(ctx, rep):
    ix = ctx.index
    rep.rule("R-C23-route", "in every per-tape loop of the transform-application machinery, each list that collects one entry per input tape "
             "(post-processing functions, result slices, tape counts) is appended exactly once on every path through one iteration — a "
             "`continue`, an early branch or a doubled append misaligns the positional routing of results to the tapes that produced them")
    n_loops = 0
    for rel, qual in SITES:
        f = ix.func(rel, qual)
        rep.analysed(rel, qual)
        for loop in [n for n in walk_shallow(f.node) if isinstance(n, ast.For)]:
            # lists appended in the loop body (directly, not in nested loops) that the function later hands to the routing closure / partial
            appended = {}
            stack = list(loop.body)
            while stack:  # appends of THIS loop (not of nested loops / nested functions)
                st = stack.pop()
                if isinstance(st, (ast.For, ast.While, ast.FunctionDef, ast.AsyncFunctionDef, ast.Lambda, ast.ListComp, ast.GeneratorExp)):
                    continue
                if isinstance(st, ast.Call):
                    r = method_call(st)
                    if r and r[1] == "append" and isinstance(r[0], ast.Name):
                        appended.setdefault(r[0].id, []).append(st)
                stack.extend(ast.iter_child_nodes(st))
            # routing pairs: lists handed together to the positional routing (individual_fns=/slices= of one call, or zipped together
            # outside the loop); a pair counts only when BOTH lists are appended in this loop
            per_tape = set()
            for n in ast.walk(f.node):
                if isinstance(n, ast.Call):
                    kws = {k.arg: k.value.id for k in n.keywords if k.arg in ("individual_fns", "slices") and isinstance(k.value, ast.Name)}
                    if len(kws) == 2 and set(kws.values()) <= set(appended):
                        per_tape |= set(kws.values())
                    if norm(n.func) == "zip" and len(n.args) >= 2 and all(isinstance(a, ast.Name) for a in n.args) \
                            and not any(n is x for x in ast.walk(loop)):
                        names = {a.id for a in n.args}
                        if names <= set(appended):
                            per_tape |= names
            per_tape = sorted(per_tape)
            if len(per_tape) < 2:
                continue
            # only loops over the input tapes: target names a tape and the body calls the transform
            n_loops += 1
            body_fn = ast.FunctionDef(name="_iter", args=f.node.args, body=loop.body, decorator_list=[], lineno=loop.lineno, col_offset=0)
            cfg = CFG(body_fn, may_raise=lambda n: False)
            for name in per_tape:
                def is_app(nd, name=name):
                    return nd.stmt is not None and nd.kind == "stmt" and any(
                        isinstance(c, ast.Call) and method_call(c) and method_call(c)[1] == "append" and isinstance(method_call(c)[0], ast.Name)
                        and method_call(c)[0].id == name for c in walk_shallow(nd.stmt))
                where = f"{rel}:{qual} loop L{loop.lineno} list `{name}`"
                # `continue`/fall-through both end the iteration: exit + continue targets. Build with continue modelled as exit:
                skipped = _path_skipping(cfg, is_app)
                twice = False
                for a in [nd for nd in cfg.stmts() if is_app(nd)]:
                    for s, _ in cfg.succ[a.id]:
                        if any(is_app(cfg.nodes[r]) for r in cfg.reachable(s)):
                            twice = True
                if skipped is not None:
                    via = " -> ".join(f"L{x.line}" for x in skipped if x.stmt is not None)
                    rep.refuted("R-C23-route", rel, qual, skipped[-2].stmt if len(skipped) > 1 and skipped[-2].stmt is not None else loop,
                                f"an iteration of the per-tape loop can finish without appending to `{name}` (path {via}): the lists "
                                f"{per_tape} no longer have one entry per input tape, so results are routed to the wrong post-processing function")
                elif twice:
                    rep.refuted("R-C23-route", rel, qual, loop, f"`{name}` can be appended twice in one iteration of the per-tape loop")
                else:
                    rep.proved("R-C23-route", where, "appended exactly once on every path through an iteration")
    rep.floor("per-tape routing loops", n_loops, 2)


def _path_skipping(cfg, is_app):
    """a path entry -> end of iteration (normal exit of the body, `continue`) avoiding the append, or None.
    `continue` inside the synthetic body has no loop frame, so the body is built with continue==return: handled by
    treating Continue statements as exits through a pre-pass below."""
    return cfg.path_avoiding(cfg.entry, cfg.exit, is_app)


def slices(ctx, rep):
    """R-C23-slice: `_batch_postprocessing(results, individual_fns, slices)` applies the i-th function to `results[slices[i]]`."""
    ix = ctx.index
    rel = "pennylane/core/transforms/compile_pipeline.py"
    f = ix.func(rel, "_batch_postprocessing")
    rep.rule("R-C23-slice", "in _batch_postprocessing every call of an element of `individual_fns` receives `results` subscripted by the element of "
             "`slices` paired with it (same zip, or the same index): the recorded slices, not positions or counts, say which results belong to "
             "which tape — a transform may turn one tape into zero or several")
    rep.analysed(rel, f.qualname)
    params = [a.arg for a in f.node.args.args + f.node.args.kwonlyargs]
    if len(params) < 3:
        rep.unknown("R-C23-slice", f"{rel}:_batch_postprocessing", "signature not recognised")
        return
    res_p, fns_p, sl_p = params[0], params[1], params[2]
    n = 0
    for comp in [x for x in ast.walk(f.node) if isinstance(x, (ast.GeneratorExp, ast.ListComp, ast.For))]:
        gens = comp.generators if not isinstance(comp, ast.For) else [comp]
        fn_var = sl_var = idx_var = None
        for g in gens:
            it, tg = g.iter, g.target
            if isinstance(it, ast.Call) and norm(it.func) == "zip" and isinstance(tg, ast.Tuple):
                for a_, t_ in zip(it.args, tg.elts):
                    if isinstance(a_, ast.Name) and isinstance(t_, ast.Name):
                        if a_.id == fns_p:
                            fn_var = t_.id
                        if a_.id == sl_p:
                            sl_var = t_.id
            elif isinstance(it, ast.Call) and norm(it.func) == "enumerate" and isinstance(tg, ast.Tuple) and len(tg.elts) == 2 \
                    and it.args and isinstance(it.args[0], ast.Name) and all(isinstance(t_, ast.Name) for t_ in tg.elts):
                if it.args[0].id == fns_p:
                    idx_var, fn_var = tg.elts[0].id, tg.elts[1].id
                if it.args[0].id == sl_p:
                    idx_var, sl_var = tg.elts[0].id, tg.elts[1].id
            elif isinstance(it, ast.Name) and it.id == fns_p and isinstance(tg, ast.Name):
                fn_var = tg.id
        if fn_var is None:
            continue
        body = [comp.elt] if not isinstance(comp, ast.For) else comp.body
        for b in body:
            for call in [x for x in ast.walk(b) if isinstance(x, ast.Call) and isinstance(x.func, ast.Name) and x.func.id == fn_var]:
                n += 1
                arg = call.args[0] if call.args else None
                ok = False
                if isinstance(arg, ast.Subscript) and isinstance(arg.value, ast.Name) and arg.value.id == res_p:
                    sl = arg.slice
                    if isinstance(sl, ast.Name) and sl.id == sl_var:
                        ok = True
                    if isinstance(sl, ast.Subscript) and isinstance(sl.value, ast.Name) and sl.value.id == sl_p and idx_var and norm(sl.slice) == idx_var:
                        ok = True
                where = f"{rel}:_batch_postprocessing `{norm(call)[:60]}`"
                if ok:
                    rep.proved("R-C23-slice", where, "function applied to results[<its slice>]")
                else:
                    rep.refuted("R-C23-slice", rel, "_batch_postprocessing", call,
                                f"`{norm(call)[:70]}` does not hand the function the results selected by its own entry of `{sl_p}`: as soon as one "
                                "transform of the stage maps a tape to zero or several tapes, results are routed to the wrong tape", line=call.lineno)
    rep.floor("applications of per-tape post-processing functions", n, 1)


def routing_args(ctx, rep):
    """R-C23-args: the module-level result-routing helpers are bound into post-processing closures (functools.partial) that a caller may
    invoke more than once; they must not change the lists they are given (an in-place `stack.reverse()` flips the order on every call)."""
    from ..effects import L, Engine, Spec

    ix = ctx.index
    rel = "pennylane/core/transforms/compile_pipeline.py"
    rep.rule("R-C23-args", "_batch_postprocessing and _apply_postprocessing_stack do not mutate the sequences they receive (results, the per-tape functions, "
             "the slices, the LIFO stack): they are partially applied into closures that are called once per execution")
    eng = Engine(ix, Spec(name="argument list"), max_depth=2)
    n = 0
    for fname in ("_batch_postprocessing", "_apply_postprocessing_stack"):
        f = ix.func(rel, fname)
        rep.analysed(rel, fname)
        for a in f.node.args.args + f.node.args.kwonlyargs:
            n += 1
            res = eng.analyse(f, {a.arg: {L}})
            if not res.sinks:
                rep.proved("R-C23-args", f"{rel}:{fname}({a.arg})", "only read")
            for s_ in res.sinks:
                rep.refuted("R-C23-args", rel, fname, s_.node,
                            f"`{fname}` {s_.why.replace('owned by the input argument list', 'it was given')} (parameter `{a.arg}`): the function is bound into a "
                            "post-processing closure with functools.partial, so a second call of the same closure sees the modified list and routes / orders "
                            "the results differently", line=s_.line)
    rep.floor("parameters of the result-routing helpers", n, 4)
