"""C31 — seeded and parallel execution is reproducible and order preserving (structural guarantees):
per-task randomness is fixed before dispatch and never shares the device's generator with workers;
results are collected through an order-preserving primitive; the simulation path never draws from
the process-global generators except behind an explicit opt-in."""

from __future__ import annotations

import ast

from ..astutil import call_name
from ..cfg import CFG, walk_shallow
from ..core import Report, norm
from ..index import FuncInfo

DEVICES = ("pennylane/devices/default_qubit.py", "pennylane/devices/default_clifford.py", "pennylane/devices/default_mixed.py")
SIM_PATH_PREFIXES = ("pennylane/devices/default_qubit.py", "pennylane/devices/default_mixed.py", "pennylane/devices/default_clifford.py",
                     "pennylane/devices/qubit/", "pennylane/devices/qubit_mixed/", "pennylane/measurements/")
REORDER = {"sorted", "set", "frozenset", "reversed"}
RNG_DRAWS = {"integers", "random", "choice", "normal", "uniform", "binomial", "permutation", "bytes", "spawn", "bit_generator"}


def _mentions_shared_rng(e):
    """does expression e carry `self._rng` itself (not a number drawn from it)?"""
    parents = {}
    for p in ast.walk(e):
        for c in ast.iter_child_nodes(p):
            parents[c] = p
    for n in ast.walk(e):
        if isinstance(n, ast.Attribute) and n.attr == "_rng" and isinstance(n.value, ast.Name) and n.value.id == "self":
            p = parents.get(n)
            if isinstance(p, ast.Attribute) and p.value is n and p.attr in RNG_DRAWS:
                continue  # self._rng.integers(...) : a drawn value, not the generator
            return n
    return None


def check(ctx):
    ix = ctx.index
    rep = Report("C31", "results are independent of worker scheduling: per-task seeds are drawn from the device generator before dispatch, "
                 "the generator itself never reaches a worker, results are collected in input order, and no simulation code draws from a "
                 "process-global generator without an explicit opt-in (equality with serial execution and bit-reproducibility of samplers "
                 "are runtime and not decided).")
    rep.rule("R-C31-seed", "in every device method that calls executor.map: no argument of the call (followed through local definitions) "
             "carries `self._rng` itself; every value drawn from `self._rng` for the tasks is drawn by a statement that dominates the dispatch; "
             "the worker callable is a module-level function, or a partial of a method that does not read `self._rng`")
    rep.rule("R-C31-order", "the value a dispatching method returns is built from the executor's map result only through order-preserving "
             "constructors (tuple, list, zip) — never sorted/set/reversed")
    rep.rule("R-C31-norng", "in the simulation path, np.random.<fn> / random.<fn> appear only inside an explicit opt-in to global randomness "
             "(`… if rng is None else …`, `… if seed == \"global\" else seed`, `seed or …`)")
    rep.assume("executor.map returns results in input order (decided for the native executors under C65)")

    n_sites = 0
    for rel in DEVICES:
        m = ix.by_relpath.get(rel)
        if m is None:
            continue
        for f in ix.funcs_in(m):
            if f.cls is None:
                continue
            maps = [c for c in walk_shallow(f.node) if isinstance(c, ast.Call) and isinstance(c.func, ast.Attribute) and c.func.attr in ("map", "starmap", "submit")
                    and isinstance(c.func.value, ast.Name) and "exec" in c.func.value.id.lower()]
            if not maps:
                continue
            rep.analysed(rel, f.qualname)
            defs = {}
            for n in walk_shallow(f.node):
                if isinstance(n, ast.Assign):
                    for t in n.targets:
                        if isinstance(t, ast.Name):
                            defs.setdefault(t.id, []).append(n)
            cfg = CFG(f.node, may_raise=lambda n: False)
            dom = cfg.dominators()
            node_of = {}
            for nd in cfg.stmts():
                st_ = nd.stmt
                if st_ is None:
                    continue
                if isinstance(st_, (ast.If, ast.While)):
                    heads = [st_.test]
                elif isinstance(st_, (ast.For, ast.AsyncFor)):
                    heads = [st_.iter, st_.target]
                elif isinstance(st_, (ast.With, ast.AsyncWith)):
                    heads = [i.context_expr for i in st_.items]
                elif isinstance(st_, (ast.Try, ast.FunctionDef, ast.ClassDef, ast.ExceptHandler)):
                    heads = []
                elif isinstance(st_, ast.Match):
                    heads = [st_.subject]
                else:
                    heads = [st_]
                for h in heads:
                    for sub in walk_shallow(h):
                        node_of.setdefault(id(sub), nd)
            for mc in maps:
                n_sites += 1
                where = f"{rel}:{f.qualname} L{mc.lineno} {norm(mc)[:70]}"
                mnode = node_of.get(id(mc))
                # ---- arguments
                bad = False
                seen = set()

                def expand(e, depth=0):
                    """yield e and the defining expressions of the local names it mentions"""
                    yield e
                    if depth > 3:
                        return
                    for nm in {x.id for x in ast.walk(e) if isinstance(x, ast.Name)}:
                        if nm in seen:
                            continue
                        seen.add(nm)
                        for d in defs.get(nm, []):
                            yield from expand(d.value, depth + 1)

                draws = []
                for a in list(mc.args[1:]) + [kw.value for kw in mc.keywords]:
                    for e in expand(a):
                        hit = _mentions_shared_rng(e)
                        if hit is not None:
                            bad = True
                            rep.refuted("R-C31-seed", rel, f.qualname, node_of.get(id(hit)).stmt if node_of.get(id(hit)) else mc,
                                        "the device's own generator `self._rng` is handed to the worker tasks: process workers each receive a copy in the "
                                        "same state (identical 'random' streams) and thread workers race on it, so results depend on scheduling and differ "
                                        "from the serial path")
                            break
                        for c in ast.walk(e):
                            if isinstance(c, ast.Call) and isinstance(c.func, ast.Attribute) and c.func.attr in RNG_DRAWS and norm(c.func.value) == "self._rng":
                                draws.append(c)
                    if bad:
                        break
                # every path to the dispatch must pass through a statement that draws the per-task values
                draw_nodes = {}
                for d in draws:
                    dn = node_of.get(id(d))
                    if dn is not None and mnode is not None and mnode.id in cfg.reachable(dn.id):
                        draw_nodes[dn.id] = dn
                if draw_nodes and mnode is not None:
                    p_ = cfg.path_avoiding(cfg.entry, mnode.id, lambda x: x.id in draw_nodes)
                    if p_ is not None:
                        bad = True
                        any_dn = next(iter(draw_nodes.values()))
                        via = " -> ".join(f"L{x.line}" for x in p_ if x.stmt is not None)
                        rep.refuted("R-C31-seed", rel, f.qualname, any_dn.stmt,
                                    f"the per-task seeds are not drawn from the device generator on every path before the dispatch at L{mc.lineno} "
                                    f"(path {via} avoids `{norm(any_dn.stmt)[:60]}`): on that path the tasks' randomness does not depend on the device seed")
                # ---- worker callable
                w = mc.args[0] if mc.args else None
                wdesc = None
                if isinstance(w, ast.Name):
                    r = ix.resolve_expr(m, w)
                    if isinstance(r, FuncInfo) and r.cls is None and r.parent is None:
                        wdesc = f"module-level function {r.name}"
                    elif w.id in defs:
                        v = defs[w.id][-1].value
                        if isinstance(v, ast.Call) and (call_name(v) or "").split(".")[-1] == "partial" and v.args:
                            tgt = v.args[0]
                            if isinstance(tgt, ast.Attribute) and norm(tgt.value) == "self":
                                dc, g = f.cls.lookup(tgt.attr)
                                if isinstance(g, FuncInfo):
                                    reads = [x for x in walk_shallow(g.node) if isinstance(x, ast.Attribute) and x.attr == "_rng" and norm(x.value) == "self"]
                                    if reads:
                                        bad = True
                                        rep.refuted("R-C31-seed", rel, f.qualname, defs[w.id][-1],
                                                    f"the worker callable is a partial of self.{tgt.attr}, which reads the device generator self._rng "
                                                    f"({g.module.relpath}:{reads[0].lineno}): each worker advances its own copy")
                                    else:
                                        wdesc = f"partial of self.{tgt.attr}, which does not read self._rng"
                            else:
                                r2 = ix.resolve_expr(m, tgt)
                                if isinstance(r2, FuncInfo):
                                    wdesc = f"partial of {r2.name}"
                        elif isinstance(v, ast.Lambda):
                            if _mentions_shared_rng(v) is not None:
                                bad = True
                                rep.refuted("R-C31-seed", rel, f.qualname, defs[w.id][-1], "the worker callable is a lambda closing over self._rng")
                elif isinstance(w, ast.Lambda) and _mentions_shared_rng(w) is not None:
                    bad = True
                    rep.refuted("R-C31-seed", rel, f.qualname, mc, "the worker callable is a lambda closing over self._rng")
                if not bad:
                    rep.proved("R-C31-seed", where, f"no shared generator among the task arguments; seeds drawn before dispatch; worker: {wdesc or 'unresolved callable'}")
                # ---- order
                _order(rep, rel, f, mc, defs, node_of)
    rep.floor("executor dispatch sites in the built-in devices", n_sites, 8)

    # ---- R-C31-norng ------------------------------------------------------------------------------
    n_glob = 0
    for mod in ix.modules.values():
        if not mod.relpath.startswith(SIM_PATH_PREFIXES):
            continue
        if "random" not in mod.source:
            continue
        rep.analysed(mod.relpath)
        parents = {}
        for p in ast.walk(mod.tree):
            for c in ast.iter_child_nodes(p):
                parents[c] = p
        funcs = ix.funcs_in(mod)
        for n in ast.walk(mod.tree):
            if not isinstance(n, ast.Attribute):
                continue
            base = norm(n.value)
            is_global = (base in ("np.random", "numpy.random", "onp.random", "pnp.random") and n.attr not in ("default_rng", "Generator", "RandomState", "SeedSequence", "PCG64", "BitGenerator")) \
                or (base == "random" and n.attr in ("random", "randint", "choice", "shuffle", "uniform", "seed", "sample", "gauss", "randrange"))
            if not is_global:
                continue
            # docstrings/doctest text is not code; here we are on real AST nodes only
            n_glob += 1
            cur, guarded = n, None
            while cur in parents:
                p = parents[cur]
                if isinstance(p, ast.IfExp) and (cur is p.body or cur is p.orelse):
                    t = norm(p.test)
                    if "is None" in t or "== 'global'" in t or '== "global"' in t:
                        guarded = t
                        break
                if isinstance(p, ast.BoolOp) and isinstance(p.op, ast.Or) and p.values and cur is not p.values[0]:
                    guarded = f"{norm(p.values[0])} or …"
                    break
                if isinstance(p, (ast.FunctionDef, ast.AsyncFunctionDef, ast.ClassDef)):
                    break
                cur = p
            owner = "<module>"
            for f in funcs:
                if f.node.lineno <= n.lineno <= (f.node.end_lineno or 0):
                    owner = f.qualname
            where = f"{mod.relpath}:{owner} L{n.lineno} {norm(n)}"
            if guarded:
                rep.proved("R-C31-norng", where, f"only under the explicit opt-in `{guarded}`")
            else:
                stmt = n
                while stmt in parents and not isinstance(stmt, ast.stmt):
                    stmt = parents[stmt]
                rep.refuted("R-C31-norng", mod.relpath, owner, stmt,
                            f"draws from the process-global generator `{norm(n)}` unconditionally: two devices created with the same seed no longer "
                            "produce the same results, and results depend on what else used the global generator")
    rep.floor("guarded global-generator sites in the simulation path", n_glob, 6)
    from .c31_extra import extra, perm, wire_map_order

    extra(ctx, rep)
    perm(ctx, rep)
    wire_map_order(ctx, rep)
    return rep


def _order(rep, rel, f, mc, defs, node_of):
    """the map result must reach the return value through order-preserving constructors only"""
    parents = {}
    for p in ast.walk(f.node):
        for c in ast.iter_child_nodes(p):
            parents[c] = p
    tainted = set()
    # direct wrappers of the call
    cur = mc
    bad = None
    while cur in parents:
        p = parents[cur]
        if isinstance(p, ast.Call) and cur in p.args:
            cn = (call_name(p) or "").split(".")[-1]
            if cn in REORDER:
                bad = p
        if isinstance(p, ast.Assign):
            tainted |= {t.id for t in p.targets if isinstance(t, ast.Name)}
            break
        if isinstance(p, ast.stmt):
            break
        cur = p
    # propagate through local names (two rounds are enough for the shapes in the tree)
    for _ in range(3):
        for n in walk_shallow(f.node):
            if isinstance(n, ast.Assign) and {x.id for x in ast.walk(n.value) if isinstance(x, ast.Name)} & tainted:
                for c in ast.walk(n.value):
                    if isinstance(c, ast.Call) and (call_name(c) or "").split(".")[-1] in REORDER and \
                            {x.id for a in c.args for x in ast.walk(a) if isinstance(x, ast.Name)} & tainted:
                        bad = bad or c
                tainted |= {t.id for t in n.targets if isinstance(t, ast.Name)}
    for n in walk_shallow(f.node):
        if isinstance(n, ast.Return) and n.value is not None and {x.id for x in ast.walk(n.value) if isinstance(x, ast.Name)} & tainted:
            for c in ast.walk(n.value):
                if isinstance(c, ast.Call) and (call_name(c) or "").split(".")[-1] in REORDER:
                    bad = bad or c
        if isinstance(n, ast.Call) and isinstance(n.func, ast.Attribute) and n.func.attr in ("sort", "reverse") and isinstance(n.func.value, ast.Name) and n.func.value.id in tainted:
            bad = bad or n
    where = f"{rel}:{f.qualname} L{mc.lineno} result order"
    if bad is not None:
        rep.refuted("R-C31-order", rel, f.qualname, bad,
                    f"the results of the parallel map are passed through `{norm(bad)[:60]}`, which does not preserve the order of the input circuits")
    else:
        rep.proved("R-C31-order", where, "collected through tuple/list/zip only")
