"""R-C11-work for rules whose ``work_wires=`` argument of ``@register_resources`` is a *function*
(a work-wire spec returning ``{"zeroed": <count expression>, ...}``) instead of a literal dict.

Clause decided: *the declared number of work wires bounds the work wires the rule actually uses.*

Both sides are read with the E3 symbolic executor (a subclass of ``rulescan.Scanner`` that keeps
the polynomial behind every comparison, gives ``x[:n]`` its real length ``len(range(len(x))[:n])``
instead of assuming the slice is in range, records the decisions taken before every ``allocate``
call and unfolds ``**base.arguments``):

* body   : every path of the rule, with the ``allocate(<count>, state, restored)`` calls reached on
           it (also nested in ``list(...)``, an augmented assignment, a starred display ...), their
           kind, symbolic count and the path condition under which they run;
* spec   : every path of the spec function called with the same keyword arguments as the rule ->
           ``{kind: count}``.

PROVED   for every (body path, spec path) pair: the conditions are contradictory, or
         ``declared[kind] - allocated[kind] >= 0`` follows from them and ``sizes >= 0`` (max / min /
         slice lengths split into their linear cases, Fourier-Motzkin on each case; functions that are
         not piecewise linear are opaque variables);
REFUTED  only with a concrete witness: register sizes (a small grid) for which the decisions before the
         allocate call hold, the rule is applicable (``@register_condition``), the count allocated there is
         positive and larger than the declared count of the spec path selected by the same sizes.  The
         witness search evaluates the extracted expressions only, never code of the analysed tree;
UNKNOWN  otherwise, with the reason.
"""

from __future__ import annotations

import ast
import itertools
import re
from fractions import Fraction

from ..core import norm
from ..index import ClassInfo, FuncInfo
from ..rulescan import (ATOM_INFO, ONE, SYMBOLIC, ZERO, ConstV, CondV, DictV, Frame, FuncV, LambdaV, LocalFuncV, MapV,
                        NumV, Poly, Run, Scanner, SymV, _Return, fn_atom)  # fmt: skip

KINDS = ("zeroed", "borrowed", "burnable", "garbage")
GRID = 5  # witness search: every size atom in 0..GRID (required registers 1..GRID)
MAX_GRID_ATOMS = 5
MAX_CASES = 256
MAX_ROWS = 3000

RULE_TEXT = ("allocate(n, state, restored) in a rule body requires work_wires= with the kind (zero,True)->zeroed, (any,True)->borrowed, "
             "(zero,False)->burnable, (any,False)->garbage and a count >= the wires held at once: a literal dict is compared as integers; "
             "a work-wire spec *function* is evaluated symbolically per path and `declared >= allocated` is proved by linear arithmetic over "
             "the register sizes or refuted by a concrete size assignment")
ASSUMPTIONS = (
    "work-wire spec functions: the spec, the @register_condition predicates and the rule body are called with the same keyword arguments "
    "(DecompositionRule.get_work_wire_spec(**kwargs) / is_applicable(**kwargs) / rule(**kwargs)); for operators with resource_params the spec "
    "receives the resource_params entries, which are read from the literal dict of the property (len(self.hyperparameters[k]) is len(k) of the rule)",
    "work-wire spec functions: register sizes are non-negative integers; a rule parameter without a default is not None; a spec parameter that is "
    "not an argument of the registered operator class takes its default; op.arguments maps every constructor argument name n of the operator "
    "class to op.n",
    "work-wire spec functions: witnesses use sizes 1..5 for required registers and 0..5 for registers with a default; every such combination "
    "that satisfies the rule's @register_condition predicates is a possible operator instance; math.ceil_log2(n) is ceil(log2(n)) for n >= 1",
)
# reasons of the executor that do not hide a call (every statement is still visited)
HARMLESS_UNRESOLVED = ("return/break under a loop-variant condition", "break/continue in a loop", "operator constructed inside a comprehension",
                       "operator type not understood", "prod() of values that are not operators", "operator passed to external function",
                       "apply() of a value", "bind_new_parameters() of a value")  # fmt: skip


def describe(rep):
    rep.rule("R-C11-work", RULE_TEXT)
    for a in ASSUMPTIONS:
        rep.assume(a)


# =============================================================================================
# executor


class _WorkScanner(Scanner):
    """E3 executor with the extras the work-wire comparison needs (see module docstring)"""

    def __init__(self, ix):
        super().__init__(ix)
        self.cond_polys = {}  # canonical condition text -> (Poly q, "==" | ">=")   (the text states  q == 0  /  q >= 0)
        self.arg_names = {}  # parameter name -> constructor argument names of the operator it holds

    def _cmp_text(self, p, op):
        text, pol = super()._cmp_text(p, op)
        if op == "==":
            q = p if text == f"{p}==0" else -p
        else:
            q = p if pol else -p - ONE
        if text.startswith(str(q)):
            self.cond_polys[text] = (q, op)
        return text, pol

    @staticmethod
    def _pure(e):
        """no call other than len(): evaluating the expression twice has no effect on the run"""
        for n in ast.walk(e):
            if isinstance(n, ast.Call) and not (isinstance(n.func, ast.Name) and n.func.id == "len"):
                return False
            if isinstance(n, (ast.NamedExpr, ast.Lambda, ast.ListComp, ast.GeneratorExp, ast.SetComp, ast.DictComp, ast.Await, ast.Yield)):
                return False
        return True

    def ev_subscript(self, e, fr, run):
        sl = e.slice
        if isinstance(sl, ast.Slice) and sl.lower is None and sl.step is None and sl.upper is not None and self._pure(e):
            base = self.ev(e.value, fr, run)
            hi = self.ev(sl.upper, fr, run)
            if isinstance(base, SymV):
                L, h = self.length(base), self.to_num(hi)
                if L is not None and h is not None and not (isinstance(hi, SymV) and self._seq(hi)) and (h - L != ZERO):
                    if h.as_int() is None:
                        n = Poly.atom(fn_atom("slicelen", L, h))
                    elif h.as_int() >= 0 and L.as_int() is None:
                        n = Poly.atom(fn_atom("min", *sorted((L, h), key=str)))
                    else:
                        n = None
                    if n is not None:
                        return SymV(f"{self.vtext(base)}[:{self.vtext(hi)}]", length=n, free=base.free)
        return super().ev_subscript(e, fr, run)

    def getattr_(self, base, attr, run):
        if attr == "arguments" and isinstance(base, SymV) and base.param and not base.free:
            names = self.arg_names.get(base.text)
            if names:
                return MapV({n: SymV(f"{base.text}.{n}") for n in names})
            run.unres(f"{base.text}.arguments: the operator class of {base.text} is not known")
        return super().getattr_(base, attr, run)

    def call_func(self, f, args, kwargs, starkw, e, fr, run, curried=False):
        if f.name == "ceil_log2" and f.module.name.startswith("pennylane.math") and len(args) == 1 and not kwargs and starkw is None:
            p = self.to_num(args[0])
            if p is not None and not (isinstance(args[0], SymV) and self._seq(args[0])):
                if p.as_int() is not None and p.as_int() >= 1:
                    return ConstV((p.as_int() - 1).bit_length())
                return NumV(Poly.atom(fn_atom("ceil_log2", p)))
        return super().call_func(f, args, kwargs, starkw, e, fr, run, curried)

    def call_may_emit(self, call, fr, _depth=0):
        # a helper that allocates is inlined like one that constructs operators
        if super().call_may_emit(call, fr, _depth):
            return True
        fn = call.func
        return isinstance(fn, (ast.Name, ast.Attribute)) and self.ix.resolve_expr(fr.module, fn) is self.anchor["allocate"]

    def do_allocate(self, f, args, kwargs, e, fr, run, managed):
        v = super().do_allocate(f, args, kwargs, e, fr, run, managed)
        s = v.site
        s.w_conds = dict(run.decided)
        s.w_opt = bool(run.opt)
        s.w_mult = run.count() if run.mult else ONE
        s.w_open = list(run.open_allocs)
        return v


_WS = {}


def _work_scanner(ix) -> _WorkScanner:
    s = _WS.get(id(ix))
    if s is None or s.ix is not ix:
        _WS.clear()
        s = _WorkScanner(ix)
        _WS[id(ix)] = s
    return s


def _sig(a: ast.arguments):
    names = [x.arg for x in a.posonlyargs + a.args]
    defaults = dict(zip(names[len(names) - len(a.defaults):], a.defaults))
    for x, d in zip(a.kwonlyargs, a.kw_defaults):
        if d is not None:
            defaults[x.arg] = d
    return names + [x.arg for x in a.kwonlyargs], defaults


def _run_body(ws, f: FuncInfo, pre):
    fr0 = ws.rule_frame(f)

    def runner(run):
        run.decided.update(pre)
        fr = Frame(f.module, fr0.parent, f.qualname)
        a = f.node.args
        for x in a.posonlyargs + a.args + a.kwonlyargs:
            fr.bind(x.arg, SymV(x.arg, param=True))
        if a.vararg:
            fr.bind(a.vararg.arg, SymV("*" + a.vararg.arg))
        if a.kwarg:
            fr.bind(a.kwarg.arg, SymV("**" + a.kwarg.arg))
        run.callstack.append((f.module.relpath, f.qualname, f))
        try:
            ws.exec_block(f.node.body, fr, run)
        except _Return as r:
            return r.value
        return None

    return ws.explore("body", runner)


def _run_fn(ws, target, bind, pre):
    """paths of a spec / condition function called with the bindings ``bind`` (name -> V | "default" | "shared").
    The function itself is not pushed on the call stack: one level of self recursion
    (``return spec(**base.arguments)``) is unfolded by the executor's inliner."""
    if isinstance(target, FuncV):
        g = target.func
        module, node, qual = g.module, g.node, g.qualname
        parent = ws.factory_frame(g.parent) if g.parent is not None else None
    else:  # LocalFuncV | LambdaV
        module, node, qual, parent = target.frame.module, target.node, target.frame.qual, target.frame
    names, defaults = _sig(node.args)

    def runner(run):
        run.decided.update(pre)
        sub = Frame(module, parent, qual)
        for n in names:
            b = bind.get(n, "shared")
            if b == "default":
                b = ws.ev(defaults[n], Frame(module), run)
            elif b == "shared":
                b = SymV(n, param=True)
            sub.bind(n, b)
        if node.args.vararg:
            sub.bind(node.args.vararg.arg, SymV("*" + node.args.vararg.arg))
        if node.args.kwarg:
            sub.bind(node.args.kwarg.arg, SymV("**" + node.args.kwarg.arg))
        if isinstance(node, ast.Lambda):
            return ws.ev(node.body, sub, run)
        try:
            ws.exec_block(node.body, sub, run)
        except _Return as r:
            return r.value
        return None

    return ws.explore("res", runner)


# =============================================================================================
# how the spec is called: parameter bindings per registration


def _mentions(ref, ri):
    return ref.rule is ri or any(_mentions(x, ri) for x in ref.inner)


def _ctor_defaults(cls: ClassInfo):
    c, f = cls.lookup("__init__")
    if isinstance(f, FuncInfo):
        return set(_sig(f.node.args)[1])
    return set()


def _resource_params(ws, cls: ClassInfo):
    """Operator1 style: {resource key: V} read from the literal dict returned by the ``resource_params`` property, or None"""
    c, f = cls.lookup("resource_params")
    if not isinstance(f, FuncInfo):
        return None
    rets = [n for n in ast.walk(f.node) if isinstance(n, ast.Return)]
    if len(rets) != 1 or not isinstance(rets[0].value, ast.Dict) or len(f.node.body) > 2:
        return None

    def hyper(e):
        """self.hyperparameters["X"] -> "X";  self.wires -> "wires" """
        if isinstance(e, ast.Subscript) and isinstance(e.slice, ast.Constant) and isinstance(e.slice.value, str) and \
                isinstance(e.value, ast.Attribute) and e.value.attr == "hyperparameters" and isinstance(e.value.value, ast.Name) and e.value.value.id == "self":
            return e.slice.value
        if isinstance(e, ast.Attribute) and e.attr == "wires" and isinstance(e.value, ast.Name) and e.value.id == "self":
            return "wires"
        return None

    out = {}
    for k, val in zip(rets[0].value.keys, rets[0].value.values):
        if not (isinstance(k, ast.Constant) and isinstance(k.value, str)):
            return None
        v = None
        if isinstance(val, ast.Call) and isinstance(val.func, ast.Name) and val.func.id == "len" and len(val.args) == 1 and not val.keywords:
            h = hyper(val.args[0])
            if h:
                v = NumV(Poly.atom("#" + h))
        elif hyper(val):
            v = SymV(hyper(val), param=True)
        out[k.value] = v
    return out


class _Scenario:
    def __init__(self, label):
        self.label = label
        self.bind = {}  # spec parameter -> V | "default" | "shared"
        self.arg_names = {}
        self.optional = set()  # size atoms that may be 0 in a witness
        self.why = None  # reason the call cannot be modelled


def _scenarios(sc0, ws, ri, names, defaults):
    rnames, rdefaults = _sig(ri.func.node.args)
    has_kw = ri.func.node.args.kwarg is not None
    regs = [reg for reg in sc0.registrations() if any(_mentions(r, ri) for r in reg.rules)]
    out = []

    def default_or(s, p, why):
        if p in defaults:
            s.bind[p] = "default"
        else:
            s.why = why

    # registers that may be empty in a witness: optional in the rule's (or, below, the operator's) signature
    base_optional = {"#" + p for p in rnames if p in rdefaults} | {"#" + p for p in names if p in defaults and p not in rnames}
    if not regs:
        s = _Scenario("(registration not found)")
        s.optional = set(base_optional)
        for p in names:
            if p in rnames:
                s.bind[p] = "shared"
            elif not has_kw:
                default_or(s, p, f"spec parameter {p} is not a parameter of the rule and has no default")
            elif p in defaults:
                s.why = f"no add_decomps registration of the rule found: cannot tell whether the spec parameter {p} is passed or takes its default"
            else:
                s.bind[p] = "shared"
        return [s]
    for reg in regs:
        s = _Scenario(reg.target_text)
        s.optional = set(base_optional)
        cls = reg.base if isinstance(reg.base, ClassInfo) else None
        if reg.kind is None:
            if cls is None:
                s.why = f"registered operator {reg.target_text} does not resolve to a class"
            elif cls.is_subclass_of("Operator2"):
                argn = ws.ctor_params(cls)
                if argn is None:
                    s.why = f"constructor arguments of {cls.name} not known"
                else:
                    s.optional |= {"#" + p for p in _ctor_defaults(cls)}
                    for p in names:
                        if p in argn:
                            s.bind[p] = "shared"
                        else:
                            default_or(s, p, f"spec parameter {p} is neither an argument of {cls.name} nor has a default")
            else:
                rp = _resource_params(ws, cls)
                if rp is None:
                    s.why = f"{cls.name}.resource_params is not a literal dict"
                else:
                    for p in names:
                        if p in rp:
                            if rp[p] is None:
                                s.why = f"{cls.name}.resource_params[{p!r}] is not len(self.hyperparameters[..]) / len(self.wires) / self.hyperparameters[..]"
                            else:
                                s.bind[p] = rp[p]
                        else:
                            default_or(s, p, f"spec parameter {p} is neither a resource_params key of {cls.name} nor has a default")
        else:
            wrap = set()
            for n, k in SYMBOLIC.items():
                if k == reg.kind:
                    for c in ws.ix.classes_named(n):
                        wrap |= set(ws.ctor_params(c) or ())
            if not wrap:
                s.why = f"constructor arguments of the {reg.kind} wrapper not known"
            for p in names:
                if p in wrap or p in rnames:
                    s.bind[p] = "shared"
                else:
                    default_or(s, p, f"spec parameter {p} is neither an argument of the {reg.kind} wrapper nor has a default")
            if cls is not None and ws.ctor_params(cls) is not None and cls.is_subclass_of("Operator2"):
                s.arg_names["base"] = list(ws.ctor_params(cls))
                s.optional |= {"#base." + p for p in _ctor_defaults(cls)}
        out.append(s)
    # identical calls are analysed once
    seen, uniq = set(), []
    for s in out:
        k = (s.why, tuple(sorted((p, b if isinstance(b, str) else ws.vtext(b)) for p, b in s.bind.items())), tuple(sorted(s.arg_names.items())))
        k = repr(k)
        if k not in seen:
            seen.add(k)
            uniq.append(s)
    return uniq


# =============================================================================================
# concrete evaluation of the extracted expressions (witness search)


class _NoEval(Exception):
    pass


_SIZE = re.compile(r"#[A-Za-z_]\w*(\.[A-Za-z_]\w*)*$")
_EVAL = {"max", "min", "floordiv", "mod", "pow", "ceil_log2", "slicelen", "ceil", "floor", "int", "abs", "div"}


def _deps(p, ws, size, bad):
    """base atoms of a Poly (through the arguments of function atoms): size atoms / atoms that cannot be evaluated"""
    for a in p.atoms():
        info = ATOM_INFO.get(a)
        if info is None:
            (size if _SIZE.match(a) else bad).add(a)
            continue
        if info[0] not in _EVAL:
            bad.add(a)
            continue
        for x in info[1:]:
            if isinstance(x, Poly):
                _deps(x, ws, size, bad)
            elif info[0] == "int" and isinstance(x, str):
                t = x[4:] if x.startswith("not ") else x
                if t in ws.cond_polys:
                    _deps(ws.cond_polys[t][0], ws, size, bad)
                else:
                    bad.add(a)
            else:
                bad.add(a)


def _tainted(p):
    """an atom that stands for several values (`?` = not understood, `@` = loop variant)"""
    for a in p.atoms():
        if "?" in a or "@" in a:
            return True
        info = ATOM_INFO.get(a)
        if info and any(isinstance(x, Poly) and _tainted(x) for x in info[1:]):
            return True
    return False


def _as_int(x):
    if x.denominator != 1:
        raise _NoEval("not an integer")
    return int(x)


def _ev_atom(a, env, ws):
    if a in env:
        return env[a]
    info = ATOM_INFO.get(a)
    if info is None or info[0] not in _EVAL:
        raise _NoEval(a)
    name = info[0]
    if name == "int" and isinstance(info[1], str):
        t = info[1]
        neg = t.startswith("not ")
        r = _ev_cond(t[4:] if neg else t, env, ws)
        return Fraction(int(r != neg))
    xs = []
    for x in info[1:]:
        if not isinstance(x, Poly):
            raise _NoEval(a)
        xs.append(_ev_poly(x, env, ws))
    if name in ("max", "min") and xs:
        return (max if name == "max" else min)(xs)
    if name == "abs" and len(xs) == 1:
        return abs(xs[0])
    if name in ("floordiv", "mod", "div") and len(xs) == 2:
        if xs[1] == 0:
            raise _NoEval("division by zero")
        if name == "div":
            return xs[0] / xs[1]
        q = Fraction((xs[0] / xs[1]).__floor__())
        return q if name == "floordiv" else xs[0] - q * xs[1]
    if name == "pow" and len(xs) == 2:
        e = _as_int(xs[1])
        if e < 0 or e > 64:
            raise _NoEval("exponent")
        return xs[0] ** e
    if name == "ceil_log2" and len(xs) == 1:
        n = _as_int(xs[0])
        if n < 1:
            raise _NoEval("ceil_log2 of a non-positive number")
        return Fraction((n - 1).bit_length())
    if name == "slicelen" and len(xs) == 2:
        L, h = _as_int(xs[0]), _as_int(xs[1])
        if L < 0:
            raise _NoEval("negative length")
        return Fraction(len(range(L)[:h]))
    if name in ("ceil", "floor", "int") and len(xs) == 1:
        x = xs[0]
        return Fraction(x.__ceil__() if name == "ceil" else x.__floor__() if name == "floor" else int(x))
    raise _NoEval(a)


def _ev_poly(p, env, ws):
    tot = Fraction(0)
    for k, c in p.t.items():
        m = Fraction(c)
        for a, pw in k:
            m *= _ev_atom(a, env, ws) ** pw
        tot += m
    return tot


def _ev_cond(text, env, ws):
    qo = ws.cond_polys.get(text)
    if qo is None:
        raise _NoEval(text)
    v = _ev_poly(qo[0], env, ws)
    return v == 0 if qo[1] == "==" else v >= 0


def _ev_conds(conds, env, ws):
    return all(_ev_cond(t, env, ws) == want for t, want in conds.items())


def _cond_deps(conds, ws, size, bad):
    for t in conds:
        qo = ws.cond_polys.get(t)
        if qo is None:
            bad.add(t)
        else:
            _deps(qo[0], ws, size, bad)


def _truth(v, env, ws):
    """truth value of what a @register_condition predicate returns"""
    if isinstance(v, ConstV) and isinstance(v.value, (bool, int)):
        return bool(v.value)
    if isinstance(v, CondV):
        return _ev_cond(v.text, env, ws) != v.neg
    raise _NoEval("condition value")


# =============================================================================================
# proof: piecewise-linear case split + Fourier-Motzkin


def _integral(p):
    return all(c.denominator == 1 for c in p.t.values())


def _expandable(p):
    for k in p.t:
        if len(k) == 1 and k[0][1] == 1:
            info = ATOM_INFO.get(k[0][0])
            if info and info[0] in ("max", "min", "slicelen") and len(info) > 1 and all(isinstance(x, Poly) for x in info[1:]):
                return k[0][0], info
    return None


def _subst(p, atom, q):
    key = ((atom, 1),)
    c = p.t.get(key)
    if c is None:
        return p
    t = dict(p.t)
    del t[key]
    return Poly(t) + q.scale(c)


def _alternatives(info):
    """[(facts [(Poly, strict)], value Poly)] covering every case of the function atom"""
    name, xs = info[0], list(info[1:])
    if name in ("max", "min"):
        out = []
        for i, x in enumerate(xs):
            facts = [((x - y) if name == "max" else (y - x), False) for j, y in enumerate(xs) if j != i]
            out.append((facts, x))
        return out
    L, h = xs
    neg_h = ((-h - ONE, False) if _integral(h) else (-h, True))
    return [([(h, False), (L - h, False)], h), ([(h, False), (h - L, False)], L),
            ([neg_h, (L + h, False)], L + h), ([neg_h, (-L - h, False)], ZERO)]  # fmt: skip


def _infeasible(rows):
    """rows: (coeffs {var: Fraction}, const, strict) meaning  sum + const >= 0 (> 0).  True when no rational solution exists."""
    rows = [(dict(co), c, s) for co, c, s in rows]
    while True:
        keep, seen = [], set()
        for co, c, s in rows:
            co = {k: v for k, v in co.items() if v != 0}
            if not co:
                if c < 0 or (s and c <= 0):
                    return True
                continue
            lead = abs(next(iter(sorted(co.items(), key=lambda kv: repr(kv[0]))))[1])
            co = {k: v / lead for k, v in co.items()}
            c = c / lead
            key = (tuple(sorted(((repr(k), v) for k, v in co.items()))), c, s)
            if key not in seen:
                seen.add(key)
                keep.append((co, c, s))
        rows = keep
        if not rows:
            return False
        vs = {}
        for co, _, _ in rows:
            for k, v in co.items():
                pn = vs.setdefault(k, [0, 0])
                pn[0 if v > 0 else 1] += 1
        var = min(vs, key=lambda k: (vs[k][0] * vs[k][1], repr(k)))
        pos = [r for r in rows if r[0].get(var, 0) > 0]
        neg = [r for r in rows if r[0].get(var, 0) < 0]
        rest = [r for r in rows if var not in r[0]]
        if len(pos) * len(neg) + len(rest) > MAX_ROWS:
            return False
        for p in pos:
            for n in neg:
                a, b = p[0][var], -n[0][var]
                co = {}
                for k in set(p[0]) | set(n[0]):
                    if k != var:
                        co[k] = p[0].get(k, 0) * b + n[0].get(k, 0) * a
                rest.append((co, p[1] * b + n[1] * a, p[2] or n[2]))
        rows = rest


def _entails_false(facts):
    """facts [(Poly, strict)] (each  >= 0 / > 0) together with sizes >= 0 have no solution"""
    leaves, work, n = [], [list(facts)], 0
    while work:
        fs = work.pop()
        n += 1
        if n > MAX_CASES:
            return False
        e = None
        for p, _ in fs:
            e = _expandable(p)
            if e:
                break
        if e is None:
            leaves.append(fs)
            continue
        atom, info = e
        for extra, val in _alternatives(info):
            work.append([(_subst(p, atom, val), s) for p, s in fs] + list(extra))
    for fs in leaves:
        rows, vars_ = [], set()
        for p, s in fs:
            co = {k: v for k, v in p.t.items() if k != ()}
            rows.append((co, p.t.get((), Fraction(0)), s))
            vars_ |= set(co)
        for k in vars_:
            if len(k) == 1 and k[0][1] == 1 and k[0][0].startswith("#"):
                rows.append(({k: Fraction(1)}, Fraction(0), False))
        if not _infeasible(rows):
            return False
    return True


def _premises(conds, ws):
    """-> (facts, disequalities [Poly != 0]) of a decided-condition dict; conditions that are not numeric are dropped (weaker premise)"""
    facts, neq = [], []
    for t, want in conds.items():
        qo = ws.cond_polys.get(t)
        if qo is None or _tainted(qo[0]):
            continue
        q, op = qo
        if op == ">=":
            facts.append((q, False) if want else ((-q - ONE, False) if _integral(q) else (-q, True)))
        elif want:
            facts += [(q, False), (-q, False)]
        else:
            neq.append(q)
    return facts, neq


def _prove(facts, neq, goal):
    """facts and disequalities entail  goal >= 0  (goal None: entail False)"""
    base = list(facts)
    if goal is not None:
        base.append((-goal - ONE, False) if _integral(goal) else (-goal, True))
    if _entails_false(base):
        return True
    neq = [q for q in neq if _integral(q)][:2]
    if not neq:
        return False
    for signs in itertools.product((1, -1), repeat=len(neq)):
        extra = [((q if s > 0 else -q) - ONE, False) for q, s in zip(neq, signs)]
        if not _entails_false(base + extra):
            return False
    return True


# =============================================================================================
# the check


def _allocate_sites(ws, f: FuncInfo):
    """syntactic allocate(...) calls in the rule and in the package functions it (transitively) names"""
    anchor = ws.anchor["allocate"]
    out, seen, todo = [], set(), [(f, 0)]
    while todo:
        g, d = todo.pop()
        if id(g) in seen:
            continue
        seen.add(id(g))
        for n in ast.walk(g.node):
            if isinstance(n, ast.Call) and isinstance(n.func, (ast.Name, ast.Attribute)):
                r = ws.ix.resolve_expr(g.module, n.func)
                if r is anchor:
                    out.append(n)
                elif isinstance(r, FuncInfo) and d < 3 and r.module.name.startswith("pennylane.") and not r.module.name.startswith(
                        ("pennylane.math", "pennylane.numpy", "pennylane.wires", "pennylane.decomposition", "pennylane.allocation")):
                    todo.append((r, d + 1))
    return out


def _decl_of(ws, p):
    """{kind: Poly | None} of a spec path, or (None, why)"""
    if p.unresolved:
        return None, p.unresolved[0]
    v = p.ret
    if isinstance(v, DictV) and not v.items and not v.opaque:
        return {}, ""
    if not isinstance(v, MapV):
        return None, f"returns {ws.vtext(v) if v is not None else 'None'}"[:60]
    out = {}
    for k, x in v.items.items():
        if k in KINDS:
            n = ws.to_num(x)
            out[k] = None if n is None or _tainted(n) else n
    return out, ""


def _contradict(a, b):
    return any(t in b and b[t] != w for t, w in a.items())


def _fmt_atom(a):
    return f"len({a[1:]})" if a.startswith("#") else a


def _fmt_conds(conds):
    return " and ".join(f"{'' if w else 'not '}({t})" for t, w in sorted(conds.items())) or "always"


def check_dynamic(sc0, ri, v):
    """R-C11-work for ``work_wires=<not a literal dict>``; fills v.work_v / v.work_detail / v.findings"""
    ws = _work_scanner(sc0.ix)
    sites = _allocate_sites(ws, ri.func)
    if not sites and not ri.allocs:
        return  # nothing is allocated: no obligation (as for literal dicts)
    w = ri.work_wires
    spec_txt = norm(w)[:50]

    def unknown(why):
        v.work_v, v.work_detail = "unknown", why[:300]

    rnames, rdefaults = _sig(ri.func.node.args)
    pre = {f"{p} is None": False for p in rnames if p not in rdefaults}
    ws.arg_names = {}
    paths, overflow = _run_body(ws, ri.func, pre)
    body_unres = [u for p in paths for u in p.unresolved]
    hidden = sorted({u for u in body_unres if not u.startswith(HARMLESS_UNRESOLVED)})
    reached = {id(s.node) for p in paths for s in p.allocs}
    missed = [n for n in sites if id(n) not in reached]
    kinds = sorted({s.kind or f"state={s.state!r}, restored={s.restored!r} (not literal)" for p in paths for s in p.allocs})

    if isinstance(w, ast.Dict):
        bad = [norm(k)[:30] for k, val in zip(w.keys, w.values) if not (isinstance(k, ast.Constant) and isinstance(k.value, str))]
        why = f"work_wires={spec_txt}: the kind key {', '.join(bad)} is not a literal" if bad else f"work_wires={spec_txt} is not a literal dict"
        if ri.factory is not None:
            why += f" (a free variable of the factory {ri.factory.qualname}, decided per call site only)"
        why += f"; the body allocates {', '.join(kinds) or 'through code the executor did not reach'}"
        if hidden:
            why += f"; {hidden[0]} (may allocate further wires)"
        return unknown(why)
    probe = Run("res", [])
    try:
        target = ws.ev(w, ws.rule_frame(ri.func), probe)
    except Exception:  # noqa: BLE001  (decision needed / raise while evaluating the decorator argument)
        target = None
    if not isinstance(target, (FuncV, LocalFuncV, LambdaV)):
        return unknown(f"work_wires={spec_txt} does not resolve to a function or a literal dict")
    node = target.func.node if isinstance(target, FuncV) else target.node
    names, defaults = _sig(node.args)
    spec_name = target.func.qualname if isinstance(target, FuncV) else getattr(node, "name", "<lambda>")

    # @register_condition predicates (applicability): needed for a refutation only
    rc = ws.ix.resolve_dotted("pennylane.decomposition.decomposition_rule.register_condition")
    cond_targets, cond_opaque = [], None
    for d in ri.func.node.decorator_list:
        if d is ri.deco:
            continue
        ok = False
        if isinstance(d, ast.Call) and isinstance(d.func, (ast.Name, ast.Attribute)) and rc is not None and ws.ix.resolve_expr(ri.module, d.func) is rc \
                and len(d.args) == 1 and not d.keywords:
            try:
                t = ws.ev(d.args[0], ws.rule_frame(ri.func), Run("res", []))
            except Exception:  # noqa: BLE001
                t = None
            if isinstance(t, (FuncV, LocalFuncV, LambdaV)):
                cond_targets.append(t)
                ok = True
        if not ok:
            cond_opaque = norm(d)[:50]

    scen = _scenarios(sc0, ws, ri, names, defaults)
    notes, all_proved, n_pairs = [], True, 0
    for s in scen:
        if s.why:
            all_proved = False
            notes.append(f"[{s.label}] {s.why}")
            continue
        ws.arg_names = dict(s.arg_names)
        spaths, soverflow = _run_fn(ws, target, s.bind, pre)
        decls = []
        for p in spaths:
            d, why = _decl_of(ws, p)
            decls.append(({t: b for t, b in p.conds.items() if t not in pre}, d, why))
        cpaths = []
        capplic = cond_opaque is None
        for t in cond_targets:
            cn, cdef = _sig((t.func.node if isinstance(t, FuncV) else t.node).args)
            cbind = {}
            for p in cn:
                if p in s.bind:
                    cbind[p] = s.bind[p]
                elif p in rnames:
                    cbind[p] = "shared"
                elif p in cdef:
                    cbind[p] = "default"
                else:
                    cbind[p] = "shared"
            cp, cover = _run_fn(ws, t, cbind, pre)
            if cover or any(p.unresolved for p in cp):
                capplic = False
            cpaths.append([({t2: b for t2, b in p.conds.items() if t2 not in pre}, p.ret) for p in cp])
        ws.arg_names = {}

        # ---- refutation: a concrete witness at one allocation site
        fired = set()
        for bp in paths:
            for a in bp.allocs:
                if a.kind is None or a.w_opt or not isinstance(a.num, Poly) or not isinstance(a.w_mult, Poly) or id(a.node) in fired:
                    continue
                if a.managed and a.w_mult != ONE:
                    continue  # a context manager inside a loop: held only while an iteration runs (trip count may be 0)
                held = a.num * a.w_mult
                for o in a.w_open:
                    if o.kind == a.kind and isinstance(o.num, Poly):
                        held = held + o.num
                aconds = {t: b for t, b in a.w_conds.items() if t not in pre}
                wit = _witness(ws, s, a.kind, held, aconds, decls, cpaths if capplic else None)
                if wit is None:
                    continue
                env, dval, hval, dtxt = wit
                fired.add(id(a.node))
                call = norm(a.node)[:70]
                sizes = ", ".join(f"{_fmt_atom(k)}={int(x)}" for k, x in sorted(env.items()))
                stmt = f"{call} exceeds declared {a.kind}"
                msg = (f"{ri.qualname} allocates {held} {a.kind} work wire(s) ({call}) when {_fmt_conds(aconds)}, but its work-wire spec "
                       f"{spec_name} declares {a.kind}={dtxt}: for {sizes} the spec declares {int(dval)} and the rule allocates {int(hval)}")
                if not any(f[0] == "R-C11-work" and f[1] == stmt for f in v.findings):
                    v.findings.append(("R-C11-work", stmt, msg, a.node))
        if fired:
            all_proved = False
            continue

        # ---- proof: every (body path, spec path) pair
        if overflow or soverflow:
            all_proved = False
            a0 = next((a for bp in paths for a in bp.allocs), None)
            d0 = next((d for _, d, _ in decls if d), None)
            notes.append(f"path bound exceeded in the {'rule body' if overflow else 'spec function'} (paths not enumerated completely)"
                         + (f"; allocated {a0.kind}: {str(a0.num)[:70]}" if a0 is not None else "")
                         + (f"; declared {', '.join(f'{k}: {str(x)[:70]}' for k, x in d0.items())}" if d0 else ""))
            continue
        for bp in paths:
            if not bp.allocs:
                continue
            need, und = {}, None
            managed = {}
            for a in bp.allocs:
                if a.kind is None:
                    und = f"{norm(a.node)[:50]}: state/restored not literal"
                    break
                n = a.num if isinstance(a.num, Poly) and isinstance(a.w_mult, Poly) else None
                if n is None or _tainted(n * a.w_mult):
                    und = f"{norm(a.node)[:50]}: count not understood"
                    break
                (managed if a.managed else need).setdefault(a.kind, []).append(n * a.w_mult)
            tot = {}
            if und is None:
                for k, ns in need.items():
                    tot[k] = sum(ns, ZERO)
                for k, ns in managed.items():
                    peak = bp.alloc_peak.get(k)
                    m = peak if isinstance(peak, Poly) and not _tainted(peak) else sum(ns, ZERO)
                    tot[k] = tot.get(k, ZERO) + m
            bconds = {t: b for t, b in bp.conds.items() if t not in pre}
            bf, bn = _premises(bconds, ws)
            for sconds, d, why in decls:
                if _contradict(bconds, sconds):
                    continue
                sf, sn = _premises(sconds, ws)
                n_pairs += 1
                if und is not None or d is None or any(d.get(k, ZERO) is None for k in tot):
                    if _prove(bf + sf, bn + sn, None):
                        continue  # the two paths exclude each other
                    all_proved = False
                    notes.append(f"[{s.label}] " + (und or (f"spec path ({_fmt_conds(sconds)}): {why}" if d is None else "declared count not numeric")))
                    continue
                for k, u in sorted(tot.items()):
                    dk = d.get(k, ZERO)
                    if dk == u or _prove(bf + sf, bn + sn, dk - u):
                        continue
                    all_proved = False
                    notes.append(f"[{s.label}] not decided: {k} declared {dk} vs allocated {u} when {_fmt_conds({**bconds, **sconds})}")

    if any(f[0] == "R-C11-work" for f in v.findings):
        v.work_v, v.work_detail = "refuted", "; ".join(f[1] for f in v.findings if f[0] == "R-C11-work")
        return
    if missed:
        all_proved = False
        notes.insert(0, f"allocate call never reached by the executor: {norm(missed[0])[:60]}")
    if hidden:
        all_proved = False
        notes.insert(0, f"body not fully read ({hidden[0][:80]}): further allocations cannot be excluded")
    if all_proved and n_pairs:
        spec_kinds = ", ".join(kinds)
        v.work_v = "proved"
        v.work_detail = (f"work-wire spec {spec_name}: declared >= allocated ({spec_kinds}) on {n_pairs} (body path, spec path) pair(s) "
                         f"for all non-negative register sizes [{'; '.join(s.label for s in scen)}]")
    else:
        uniq = []
        for n in notes:
            if n not in uniq:
                uniq.append(n)
        unknown(f"work-wire spec {spec_name}: " + ("; ".join(uniq[:3]) or "no (body path, spec path) pair to compare"))


def _witness(ws, s, kind, held, aconds, decls, cpaths):
    """sizes for which the allocation site runs, the rule is applicable and the selected spec path declares less than `held`.
    -> (env, declared value, held value, declared text) | None"""
    if cpaths is None or _tainted(held):
        return None
    size, bad = set(), set()
    _deps(held, ws, size, bad)
    _cond_deps(aconds, ws, size, bad)
    for cp in cpaths:
        for cc, ret in cp:
            _cond_deps(cc, ws, size, bad)
            if isinstance(ret, CondV):
                _cond_deps({ret.text: True}, ws, size, bad)
            elif not isinstance(ret, ConstV):
                bad.add("condition value")
    if bad:
        return None
    cands = []
    for sconds, d, _why in decls:
        if d is None or _contradict(aconds, sconds):
            continue
        dk = d.get(kind, ZERO)
        if dk is None:
            continue
        sz, bd = set(size), set()
        _deps(dk, ws, sz, bd)
        _cond_deps(sconds, ws, sz, bd)
        if not bd:
            cands.append((sconds, dk, sz))
    # every spec path must be readable: the path selected by the witness has to be known
    if not cands or len(cands) != len([1 for sconds, _, _ in decls if not _contradict(aconds, sconds)]):
        return None
    atoms = sorted(set().union(*[sz for _, _, sz in cands]))
    if len(atoms) > MAX_GRID_ATOMS:
        return None
    ranges = [range(0 if a in s.optional else 1, GRID + 1) for a in atoms]
    for vals in itertools.product(*ranges):
        env = {a: Fraction(x) for a, x in zip(atoms, vals)}
        try:
            if not _ev_conds(aconds, env, ws):
                continue
            h = _ev_poly(held, env, ws)
            if h <= 0 or h.denominator != 1:
                continue
            ok = True
            for cp in cpaths:
                sel = [ret for cc, ret in cp if _ev_conds(cc, env, ws)]
                if len(sel) != 1 or not _truth(sel[0], env, ws):
                    ok = False
                    break
            if not ok:
                continue
            sel = [(sc_, dk) for sc_, dk, _ in cands if _ev_conds(sc_, env, ws)]
            if len(sel) != 1:
                continue
            dv = _ev_poly(sel[0][1], env, ws)
        except (_NoEval, ZeroDivisionError, OverflowError):
            continue
        if dv < h:
            return env, dv, h, str(sel[0][1])
    return None
