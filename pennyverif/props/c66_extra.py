"""R-C66-nocache — what a reader of the context-local registries returns must not outlive the context.

`list_decomps`, `has_decomp`, `get_fixed_decomp` (every module-level function of decomposition_rule.py that reads a
registry through V.get()) answer for the *current* context and thread.  A caller that memoises something derived from
that answer in process-wide state — a functools cache on the calling function, a module-level dict, a class attribute —
makes rules added inside one `local_decomps()` block visible after the block exits and in other threads.
"""

from __future__ import annotations

import ast

from ..astutil import call_name
from ..cfg import walk_shallow
from ..core import norm
from .c66 import MOD, MUTATORS, _ctxvars, _is_var_get

CACHE_DECOS = {"lru_cache", "cache", "cached_property", "memoize", "memoized"}


def _accessors(ix, m, cvars):
    out = set()
    for f in ix.funcs_in(m):
        if f.cls is not None or f.parent is not None:
            continue
        if any(isinstance(n, ast.Call) and _is_var_get(n) in cvars for n in ast.walk(f.node)):
            # readers only: functions that return something
            if any(isinstance(n, ast.Return) and n.value is not None for n in walk_shallow(f.node)):
                out.add(f.name)
    # readers defined through other readers (has_decomp = len(list_decomps(op)) > 0)
    changed = True
    while changed:
        changed = False
        for f in ix.funcs_in(m):
            if f.cls is not None or f.parent is not None or f.name in out:
                continue
            rets = [n for n in walk_shallow(f.node) if isinstance(n, ast.Return) and n.value is not None]
            if rets and any(isinstance(x, ast.Call) and (call_name(x) or "") in out for x in walk_shallow(f.node)):
                out.add(f.name)
                changed = True
    return out


def _module_level_names(mod):
    out = set()
    for st in mod.tree.body:
        if isinstance(st, ast.Assign):
            out |= {t.id for t in st.targets if isinstance(t, ast.Name)}
        elif isinstance(st, ast.AnnAssign) and isinstance(st.target, ast.Name):
            out.add(st.target.id)
    return out


def _local_names(fn):
    a = fn.args
    out = {x.arg for x in a.posonlyargs + a.args + a.kwonlyargs}
    if a.vararg:
        out.add(a.vararg.arg)
    if a.kwarg:
        out.add(a.kwarg.arg)
    globs = set()
    for n in walk_shallow(fn):
        if isinstance(n, ast.Global):
            globs |= set(n.names)
        elif isinstance(n, ast.Name) and isinstance(n.ctx, ast.Store):
            out.add(n.id)
    return out - globs, globs


def check_extra(ctx, rep):
    ix = ctx.index
    m = ix.module(MOD)
    cvars = _ctxvars(m)
    acc = _accessors(ix, m, cvars)
    rep.rule("R-C66-nocache", "no function that calls a reader of the context-local registries (" + ", ".join(sorted(acc)) + ") is memoised "
             "(functools cache decorators on it or an enclosing function), and none stores a value derived from the reader's answer in "
             "module-level or class-level state")
    rep.floor("registry readers identified", len(acc), 3)
    n_sites = 0
    for mod in ix.modules.values():
        rel = mod.relpath
        if not rel.startswith("pennylane/") or "/tests/" in rel or not any(a in mod.source for a in acc):
            continue
        glob_names = _module_level_names(mod)
        for f in ix.funcs_in(mod):
            calls = [n for n in walk_shallow(f.node) if isinstance(n, ast.Call) and (call_name(n) or "").split(".")[-1] in acc]
            if not calls:
                continue
            if mod is m and f.name in acc:
                continue  # the readers themselves are covered by R-C66-copy
            n_sites += 1
            rep.analysed(rel, f.qualname)
            where = f"{rel}:{f.qualname}"
            bad = None
            # (a) memoised function (itself or any enclosing function)
            g = f
            while g is not None and bad is None:
                for d in g.node.decorator_list:
                    t = d.func if isinstance(d, ast.Call) else d
                    nm = norm(t).split(".")[-1]
                    if nm in CACHE_DECOS:
                        bad = (d, f"`@{norm(d)[:40]}` memoises {g.qualname}, which answers from the registries of whichever context first called it")
                g = g.parent
            # (b) derived values stored in process-wide state
            if bad is None:
                locs, globs = _local_names(f.node)
                g_ = f.parent
                while g_ is not None:  # closure variables of enclosing functions are not process-wide state
                    locs = locs | _local_names(g_.node)[0]
                    g_ = g_.parent
                tainted = set()
                changed = True

                def is_tainted(e):
                    for x in ast.walk(e):
                        if isinstance(x, ast.Call) and (call_name(x) or "").split(".")[-1] in acc:
                            return True
                        if isinstance(x, ast.Name) and x.id in tainted:
                            return True
                    return False
                while changed:
                    changed = False
                    for n in walk_shallow(f.node):
                        tg = None
                        if isinstance(n, ast.Assign) and is_tainted(n.value):
                            tg = [x.id for t in n.targets for x in ast.walk(t) if isinstance(x, ast.Name) and isinstance(x.ctx, ast.Store)]
                        elif isinstance(n, (ast.For, ast.comprehension)) and is_tainted(n.iter):
                            tg = [x.id for x in ast.walk(n.target) if isinstance(x, ast.Name)]
                        elif isinstance(n, ast.NamedExpr) and is_tainted(n.value):
                            tg = [n.target.id]
                        for t in tg or []:
                            if t not in tainted:
                                tainted.add(t)
                                changed = True

                def is_global_container(e):
                    if isinstance(e, ast.Name):
                        return e.id not in locs or e.id in globs  # not bound in this function: module-level (own or imported)
                    if isinstance(e, ast.Attribute) and isinstance(e.value, ast.Name):
                        # ClassName.attr / cls.attr : class-level state
                        if e.value.id == "cls":
                            return True
                        return e.value.id in mod.classes
                    return False
                for n in walk_shallow(f.node):
                    if isinstance(n, ast.Assign):
                        for t in n.targets:
                            if isinstance(t, ast.Subscript) and is_global_container(t.value) and is_tainted(n.value):
                                bad = bad or (n, f"stores a value derived from the registry reader in `{norm(t.value)}`, which lives as long as the process")
                            if isinstance(t, ast.Name) and t.id in globs and is_tainted(n.value):
                                bad = bad or (n, f"assigns a value derived from the registry reader to the module global `{t.id}`")
                            if isinstance(t, ast.Attribute) and is_global_container(t) and is_tainted(n.value):
                                bad = bad or (n, f"stores a value derived from the registry reader in the class attribute `{norm(t)}`")
                    elif isinstance(n, ast.Call) and isinstance(n.func, ast.Attribute) and n.func.attr in MUTATORS and is_global_container(n.func.value) \
                            and any(is_tainted(a_) for a_ in list(n.args) + [k.value for k in n.keywords]):
                        bad = bad or (n, f"adds a value derived from the registry reader to `{norm(n.func.value)}`, which lives as long as the process")
            if bad:
                rep.refuted("R-C66-nocache", rel, f.qualname, bad[0],
                            f"{bad[1]}: rules added or fixed inside one local_decomps() block stay visible after the block exits and in other threads "
                            "(and rules of the enclosing context can be missing inside a later block)", line=getattr(bad[0], "lineno", 0))
            else:
                rep.proved("R-C66-nocache", where, f"{len(calls)} reader call(s); not memoised, nothing derived stored in module/class state")
    rep.floor("functions calling a registry reader", n_sites, 8)

    # a process-wide memo of (wrapped) decomposition rules keyed by names: rules of different contexts that share a name are conflated
    from .. import memo

    rep.rule("R-C66-memo", "no function of decomposition/ or ops/op_math/ memoises a value computed from a decomposition rule / operator under a key that "
             "contains it only through projections such as its name: inside different local contexts the same name can denote different rules")
    if not memo.report(ix, rep, "R-C66-memo", ("pennylane/decomposition/", "pennylane/ops/op_math/"), "decomposition rules"):
        rep.proved("R-C66-memo", "decomposition/ and ops/op_math/", "no partial-key memo (a positive example is kept as a self-test variant)", nontrivial=False)
