"""C65 (second part) — what comes back from submit / map / starmap, and the executor's persistence lifecycle.

R-C65-return   the value the backend hands back is the user's function result (or a future of it): it is opaque.
               * no branch of submit/map/starmap may test it (hasattr / isinstance / truthiness / comparison): for any such
                 test there is a user function whose return value flips it, and the caller then receives something
                 other than ``fn(*args, **kwargs)``;
               * per executor class: whether the backend's submit function returns a future (concurrent.futures.Executor.submit)
                 or the value (Pool.apply, the serial backend's own submit) is read from the reference table; on every
                 return feasible under the class's configuration the future is resolved with ``.result()`` exactly when
                 the backend returns one.
R-C65-lifecycle  `_get_backend` hands out `self._persistent_backend` whenever `self._persist` is true, so every method
               that drops the persistent backend (`self._persistent_backend = None`) must also clear `self._persist`
               on every path to its exit; otherwise a later submit/map/starmap calls methods on None instead of
               returning what call/map/starmap return.
"""

from __future__ import annotations

import ast

from ..astutil import call_name
from ..cfg import CFG, walk_shallow
from ..core import norm
from ..index import FuncInfo
from .c65 import API, DIR, _backend_kind, _cfg_of, _eval, _sites

BASE = "pennylane/concurrency/executors/base.py"
# kind -> backend function -> "future" | "value"   (documented stdlib behaviour; the checker's own table)
RETURNS = {
    "Executor": {"submit": "future", "map": "value"},
    "Pool": {"apply": "value", "apply_async": "future", "map": "value", "starmap": "value", "map_async": "future", "starmap_async": "future"},
}


def _repo_submit_returns(rc, name):
    c, f = rc.lookup(name)
    if not isinstance(f, FuncInfo):
        return None
    rets = [n.value for n in walk_shallow(f.node) if isinstance(n, ast.Return) and n.value is not None]
    if not rets:
        return None
    fn = [x.arg for x in f.node.args.args if x.arg not in ("self", "cls")]
    fn = fn[0] if fn else None
    # `return fn(*args, **kwargs)` -> the value itself
    if all(isinstance(r, ast.Call) and isinstance(r.func, ast.Name) and r.func.id == fn for r in rets):
        return "value"
    return None


def backend_fn_aliases(fnode):
    """locals bound to a backend function object: `backend_submit = self._submit_fn(exec_be)` -> {"backend_submit": "submit_fn"}"""
    out = {}
    for n in walk_shallow(fnode):
        if isinstance(n, ast.Assign) and len(n.targets) == 1 and isinstance(n.targets[0], ast.Name) and isinstance(n.value, ast.Call):
            c = n.value
            if isinstance(c.func, ast.Attribute) and norm(c.func.value) == "self" and c.func.attr in ("_submit_fn", "_map_fn", "_starmap_fn"):
                out[n.targets[0].id] = c.func.attr[1:]
    return out


def _output_vars(f: FuncInfo):
    """names bound to the result of a call into the backend (self._submit_fn(be)(...), self._map_fn(be)(...), exec_be.x(...))"""
    out = set()
    aliases = backend_fn_aliases(f.node)
    for n in walk_shallow(f.node):
        if isinstance(n, ast.Assign) and isinstance(n.value, ast.Call):
            callee = n.value.func
            hit = isinstance(callee, ast.Name) and callee.id in aliases
            if hit:
                pass
            elif isinstance(callee, ast.Call) and isinstance(callee.func, ast.Attribute) and norm(callee.func.value) == "self" \
                    and callee.func.attr in ("_submit_fn", "_map_fn", "_starmap_fn"):
                hit = True
            elif isinstance(callee, ast.Attribute) and isinstance(callee.value, ast.Name) and callee.value.id == "exec_be":
                hit = True
            if hit:
                out |= {t.id for t in n.targets if isinstance(t, ast.Name)}
    return out


def _tests_of(f: FuncInfo):
    for n in walk_shallow(f.node):
        if isinstance(n, (ast.If, ast.While, ast.IfExp)):
            yield n, n.test
        elif isinstance(n, ast.Assert):
            yield n, n.test
        elif isinstance(n, ast.BoolOp):
            for v in n.values[:-1]:
                yield n, v
        elif isinstance(n, ast.comprehension):
            for c in n.ifs:
                yield n, c
        elif isinstance(n, ast.Try):
            pass


def check_extra(ctx, rep, base, execs, cfgs):
    ix = ctx.index
    rep.rule("R-C65-return", "the backend's return value (the user's result, or a future of it) is opaque: no branch of submit/map/starmap tests it; "
             "under each executor's configuration it is resolved with .result() exactly when the configured backend function returns a future "
             "(reference: concurrent.futures.Executor.submit -> Future; Pool.apply and the serial backend's submit -> the value)")
    n_ret = 0
    n_opaque = 0
    seen_funcs = set()
    for c in execs:
        if c not in cfgs:
            continue
        cfg, kind, rc = cfgs[c]
        for meth in ("submit", "map", "starmap"):
            for defcls, f in [(k, f) for k, f in c.lookup_all(meth) if isinstance(f, FuncInfo)]:
                if defcls is not base and defcls is not c:
                    continue
                outs = _output_vars(f)
                if id(f.node) not in seen_funcs:
                    seen_funcs.add(id(f.node))
                    # ---- opacity
                    bad = None
                    for holder, test in _tests_of(f):
                        names = {x.id for x in ast.walk(test) if isinstance(x, ast.Name)}
                        if names & outs:
                            bad = (holder, test)
                            break
                    # try/except around a use of the output (`try: output.result() except AttributeError`) is the same dependence
                    for n in walk_shallow(f.node):
                        if isinstance(n, ast.Try) and n.handlers:
                            for st in n.body:
                                for x in ast.walk(st):
                                    if isinstance(x, ast.Attribute) and isinstance(x.value, ast.Name) and x.value.id in outs \
                                            and any(h.type is None or "AttributeError" in norm(h.type) or norm(h.type) == "Exception" for h in n.handlers):
                                        bad = bad or (n, x)
                    n_opaque += 1
                    if bad:
                        rep.refuted("R-C65-return", f.module.relpath, f.qualname, bad[1],
                                    f"`{norm(bad[1])[:80]}` makes the result depend on what the user's return value looks like: a function whose "
                                    "return value happens to satisfy the test (e.g. an object with a `result` attribute) gets a different value back "
                                    "than the built-in call would return", line=getattr(bad[0], "lineno", 0))
                    else:
                        rep.proved("R-C65-return", f"{f.module.relpath}:{f.qualname} opaque", f"no test reads the backend output {sorted(outs)}")
                if meth != "submit":
                    continue
                # ---- future vs value, per executor configuration
                bname = cfg.get("submit_fn")
                if not isinstance(bname, str):
                    continue
                exp = _repo_submit_returns(rc, bname) if kind == "repo" else RETURNS.get(kind, {}).get(bname)
                where = f"{f.module.relpath}:{f.qualname} [{c.name}]"
                if exp is None:
                    rep.unknown("R-C65-return", where, f"no reference for what {kind}.{bname} returns")
                    continue
                for st, conds in _sites(f.node.body, []):
                    if not isinstance(st, ast.Return) or st.value is None:
                        continue
                    feas = True
                    unknown_cond = False
                    for test, pol in conds:
                        v = _eval(test, cfg, kind, rc)
                        if v is not None and v != pol:
                            feas = False
                        if v is None:
                            unknown_cond = True
                    if not feas:
                        continue
                    v = st.value
                    if isinstance(v, ast.IfExp):
                        # `return output if self._cfg.blocking else output.result()`: take the arm feasible under this configuration
                        tv = _eval(v.test, cfg, kind, rc)
                        if tv is None:
                            rep.unknown("R-C65-return", where + f" `{norm(st)[:60]}`", "conditional return under an unmodelled condition")
                            continue
                        v = v.body if tv else v.orelse
                    if isinstance(v, ast.Name) and v.id in outs:
                        got = "raw"
                    elif isinstance(v, ast.Call) and isinstance(v.func, ast.Attribute) and v.func.attr == "result" and isinstance(v.func.value, ast.Name) \
                            and v.func.value.id in outs and not v.args:
                        got = "resolved"
                    else:
                        rep.unknown("R-C65-return", where + f" `{norm(st)[:60]}`", "return expression not modelled")
                        continue
                    n_ret += 1
                    guard = " and ".join((norm(t) if pol else f"not ({norm(t)})") for t, pol in conds) or "always"
                    if exp == "future" and got == "raw":
                        if unknown_cond:
                            rep.unknown("R-C65-return", where + f" `{norm(st)}`", f"returns the raw backend output under an unmodelled condition ({guard})")
                        else:
                            rep.refuted("R-C65-return", f.module.relpath, f.qualname, f"{norm(st)}  [when {guard}]",
                                        f"{kind}.{bname} returns a Future; {c.name}.submit hands that Future back instead of the function's return value",
                                        line=st.lineno, executor=c.name)
                    elif exp == "value" and got == "resolved":
                        if unknown_cond:
                            rep.unknown("R-C65-return", where + f" `{norm(st)}`", f"calls .result() under an unmodelled condition ({guard})")
                        else:
                            rep.refuted("R-C65-return", f.module.relpath, f.qualname, f"{norm(st)}  [when {guard}]",
                                        f"{kind}.{bname} returns the function's value itself; {c.name}.submit calls .result() on it (AttributeError, or "
                                        "whatever the user's object returns from its own result())", line=st.lineno, executor=c.name)
                    else:
                        rep.proved("R-C65-return", where + f" `{norm(st)}`", f"{kind}.{bname} returns a {exp}; submit returns it {got}")
    rep.floor("submit return sites checked against the backend's return kind", n_ret, 4)
    rep.floor("submit/map/starmap bodies checked for opacity of the backend output", n_opaque, 3)

    # ------------------------------------------------------------------------------- lifecycle
    rep.rule("R-C65-lifecycle", "`_get_backend` returns `self._persistent_backend` iff `self._persist`; every method (other than __init__) that sets "
             "`self._persistent_backend = None` also sets `self._persist = False` on every path through that store to the exit; the constructor that "
             "honours persist=True creates the backend under `if self._persist`")
    n_life = 0
    mods = [m for m in ix.modules.values() if m.relpath.startswith(DIR) or m.relpath == BASE]
    getb = None
    for m in mods:
        rep.analysed(m.relpath)
        for f in ix.funcs_in(m):
            if f.cls is None:
                continue
            if f.name == "_get_backend":
                getb = f
            if f.name == "__init__":
                continue
            drops = []
            for n in walk_shallow(f.node):
                if isinstance(n, ast.Assign) and any(norm(t) == "self._persistent_backend" for t in n.targets) \
                        and isinstance(n.value, ast.Constant) and n.value.value is None:
                    drops.append(n)
                if isinstance(n, ast.Delete) and any(norm(t) == "self._persistent_backend" for t in n.targets):
                    drops.append(n)
            if not drops:
                continue
            cfg_ = CFG(f.node)

            def is_clear(nd):
                s = nd.stmt
                return isinstance(s, ast.Assign) and any(norm(t) == "self._persist" for t in s.targets) \
                    and isinstance(s.value, ast.Constant) and s.value.value is False and nd.kind == "stmt"
            for d in drops:
                n_life += 1
                nodes = [nd for nd in cfg_.stmts() if nd.stmt is d]
                ok = True
                for nd in nodes:
                    after = cfg_.path_avoiding(nd.id, cfg_.exit, is_clear, labels_excluded=("exc",)) is None
                    before = cfg_.path_avoiding(cfg_.entry, nd.id, is_clear) is None
                    if not (after or before):
                        ok = False
                if ok:
                    rep.proved("R-C65-lifecycle", f"{f.module.relpath}:{f.qualname} `{norm(d)}`", "`self._persist = False` on every path through the store")
                else:
                    rep.refuted("R-C65-lifecycle", f.module.relpath, f.qualname, d,
                                "the persistent backend is dropped but `self._persist` stays true on some path: `_get_backend` keeps returning "
                                "`self._persistent_backend` (now None), so a later submit/map/starmap raises instead of returning what the built-in "
                                "call/map/starmap return", line=d.lineno)
    if getb is None:
        rep.unknown("R-C65-lifecycle", f"{BASE}:_get_backend", "not found")
    else:
        rep.analysed(getb.module.relpath, getb.qualname)
        n_life += 1
        ok = False
        body = [s for s in getb.node.body if not (isinstance(s, ast.Expr) and isinstance(s.value, ast.Constant))]
        # shape: if self._persist: return self._persistent_backend ; return self._exec_backend()(self._size)
        if len(body) == 2 and isinstance(body[0], ast.If) and norm(body[0].test) == "self._persist" and len(body[0].body) == 1 \
                and isinstance(body[0].body[0], ast.Return) and norm(body[0].body[0].value) == "self._persistent_backend" \
                and isinstance(body[1], ast.Return) and isinstance(body[1].value, ast.Call):
            ok = True
        if not ok:
            # any other arrangement of the same decision: the return of the persistent backend is reachable only across an edge that
            # establishes self._persist (true edge of `if self._persist`, false edge of `if not self._persist`)
            gcfg = CFG(getb.node, may_raise=lambda n_: False)
            prets = [nd for nd in gcfg.stmts("return") if nd.stmt.value is not None and norm(nd.stmt.value) == "self._persistent_backend"]
            others = [nd for nd in gcfg.stmts("return") if nd not in prets]
            if prets and others:
                seen_, stack_, reach = {gcfg.entry}, [gcfg.entry], False
                while stack_:
                    cur_ = stack_.pop()
                    if cur_ in {p_.id for p_ in prets}:
                        reach = True
                        break
                    nd_ = gcfg.nodes[cur_]
                    glabel = None
                    if nd_.kind == "test":
                        t_ = nd_.stmt.test
                        if norm(t_) == "self._persist":
                            glabel = "true"
                        elif isinstance(t_, ast.UnaryOp) and isinstance(t_.op, ast.Not) and norm(t_.operand) == "self._persist":
                            glabel = "false"
                    for s_, lab_ in gcfg.succ[cur_]:
                        if glabel is not None and lab_ == glabel:
                            continue
                        if s_ not in seen_:
                            seen_.add(s_)
                            stack_.append(s_)
                ok = not reach
        if ok:
            rep.proved("R-C65-lifecycle", f"{getb.module.relpath}:{getb.qualname}", "persistent backend iff self._persist, else a fresh backend")
        else:
            rets = [n for n in walk_shallow(getb.node) if isinstance(n, ast.Return)]
            uncond = [r for r in getb.node.body if isinstance(r, ast.Return) and r.value is not None and norm(r.value) == "self._persistent_backend"] \
                if len(rets) == 1 else []
            if uncond:
                rep.refuted("R-C65-lifecycle", getb.module.relpath, getb.qualname, uncond[0],
                            "`self._persistent_backend` is returned unconditionally: a non-persistent executor (the default) gets None as its backend")
            else:
                rep.unknown("R-C65-lifecycle", f"{getb.module.relpath}:{getb.qualname}", f"shape not recognised ({len(rets)} returns)")
    # constructor creates the backend when persist
    init = base.own_method("__init__")
    if init is not None:
        n_life += 1
        made = False
        for n in walk_shallow(init.node):
            if isinstance(n, ast.If) and norm(n.test) in ("self._persist", "persist"):
                for s in n.body:
                    if isinstance(s, ast.Assign) and any(norm(t) == "self._persistent_backend" for t in s.targets) and isinstance(s.value, ast.Call):
                        made = True
        for n in init.node.body:
            if isinstance(n, ast.Assign) and any(norm(t) == "self._persistent_backend" for t in n.targets) and isinstance(n.value, ast.Call):
                made = True  # unconditional creation also satisfies the invariant
        if made:
            rep.proved("R-C65-lifecycle", f"{init.module.relpath}:{init.qualname}", "backend created when persist is requested")
        else:
            rep.refuted("R-C65-lifecycle", init.module.relpath, init.qualname, "self._persistent_backend",
                        "persist=True leaves `self._persistent_backend` None while `_get_backend` returns it: every call raises", line=init.node.lineno)
    rep.floor("lifecycle obligations (drops of the persistent backend, _get_backend, constructor)", n_life, 3)


def repo_backends(ctx, rep, base, execs):
    """R-C65-backend: backends written in the repository itself (the serial backend, pool subclasses with extra methods)."""
    ix = ctx.index
    rep.rule("R-C65-backend", "every backend class the executors return from _exec_backend that is defined in the repository: its submit/map/starmap (a) never "
             "inspect the type or attributes of the user's arguments / argument entries (isinstance, type, hasattr on elements of the data: they are "
             "opaque values that must reach the function the way the built-in would pass them), and (b) build their result positionally — a "
             "result list that worker tasks append to (a closure handed to submit that mutates a captured list) is in completion order")
    n = 0
    seen = set()
    for c in execs:
        f = c.own_method("_exec_backend")
        if f is None:
            continue
        for r in [x.value for x in walk_shallow(f.node) if isinstance(x, ast.Return) and x.value is not None]:
            try:
                k = ix.resolve_expr(c.module, r)
            except RecursionError:
                k = None
            if k is None or not hasattr(k, "methods") or id(k) in seen:
                continue
            seen.add(id(k))
            for meth in ("submit", "map", "starmap"):
                g = k.own_method(meth)
                if g is None:
                    continue
                n += 1
                rep.analysed(k.module.relpath, g.qualname)
                a = g.node.args
                params = {x.arg for x in a.posonlyargs + a.args + a.kwonlyargs} - {"self", "cls"}
                if a.vararg:
                    params.add(a.vararg.arg)
                fnp = [x.arg for x in a.posonlyargs + a.args if x.arg not in ("self", "cls")]
                fn_name = fnp[0] if fnp else None
                data_params = params - {fn_name}
                # element variables: loop / comprehension targets iterating over a data parameter
                elems = set()
                for x in ast.walk(g.node):
                    if isinstance(x, (ast.For, ast.comprehension)):
                        it_names = {y.id for y in ast.walk(x.iter) if isinstance(y, ast.Name)}
                        if it_names & data_params:
                            elems |= {y.id for y in ast.walk(x.target) if isinstance(y, ast.Name)}
                bad = None
                for x in ast.walk(g.node):
                    if isinstance(x, ast.Call) and isinstance(x.func, ast.Name) and x.func.id in ("isinstance", "type", "hasattr", "callable", "len") and x.args \
                            and isinstance(x.args[0], ast.Name) and x.args[0].id in elems and x.func.id != "len":
                        bad = bad or (x, f"`{norm(x)}` makes the call depend on what an argument entry looks like: entries that are lists, arrays or ranges "
                                         "are passed differently from tuples, unlike itertools.starmap / the built-in call")
                # (b) completion-order gathering
                nested = [y for y in ast.walk(g.node) if isinstance(y, ast.FunctionDef) and y is not g.node]
                for nf in nested:
                    submitted = any(isinstance(y, ast.Call) and isinstance(y.func, ast.Attribute) and y.func.attr in ("submit", "apply_async", "map")
                                    and any(isinstance(z, ast.Name) and z.id == nf.name for z in y.args) for y in ast.walk(g.node))
                    if not submitted:
                        continue
                    local_store = {z.id for z in ast.walk(nf) if isinstance(z, ast.Name) and isinstance(z.ctx, ast.Store)} | {z.arg for z in nf.args.args}
                    for y in ast.walk(nf):
                        if isinstance(y, ast.Call) and isinstance(y.func, ast.Attribute) and y.func.attr in ("append", "extend", "insert", "add", "put") \
                                and isinstance(y.func.value, ast.Name) and y.func.value.id not in local_store:
                            captured = y.func.value.id
                            returned = any(isinstance(z, ast.Return) and z.value is not None and any(
                                isinstance(w, ast.Name) and w.id == captured for w in ast.walk(z.value)) for z in walk_shallow(g.node))
                            if returned:
                                bad = bad or (y, f"worker tasks append their results to the captured list `{captured}`, which is then returned: results arrive "
                                                 "in completion order, not in the order of the inputs")
                where = f"{k.module.relpath}:{g.qualname}"
                if bad:
                    rep.refuted("R-C65-backend", k.module.relpath, g.qualname, bad[0], bad[1], line=bad[0].lineno)
                else:
                    rep.proved("R-C65-backend", where, "arguments are forwarded opaquely and results are gathered positionally")
    rep.floor("methods of repository-defined backends", n, 3)
