"""R-C10-powmod — rules registered for ``Pow(G)`` reduce the exponent only modulo a multiple of G's order.

For a fixed gate G with G**k == identity exactly (phase included) for k = ord(G) and no smaller k, the operator
G**z depends on z only through z mod ord(G).  A rule for ``Pow(G)`` whose applicability condition or body
looks at ``z % m`` treats z and z + m alike, so m must be a multiple of ord(G): with ``z % 2`` on ``Pow(S)``
(order 4) the rule that is right for z = 0.5 also fires for z = 2.5, where S**2.5 = Z·S**0.5 is a different operator.
ord(G) comes from the exact matrix of G (E4 / opfacts: Gaussian-rational entries, exact matrix powers); when the
entries are not Gaussian rationals (T, SISWAP: 1/sqrt(2)) the modulus of the class's own ``pow`` method is the
reference (sibling agreement, as in R-C10-sym).
"""

from __future__ import annotations

import ast

from .. import opfacts
from ..core import norm
from ..index import ClassInfo

RULE = "R-C10-powmod"
MAX_ORDER = 16


def _order(ix, cls):
    m = opfacts.exact_entries(ix, cls)
    if m is None or len(m) > 4:
        return None
    for k in range(1, MAX_ORDER + 1):
        if opfacts.mat_power_is_identity(m, k):
            return k
    return None


def _z_names(fn_node, zname):
    """zname and locals that are `array(zname)` / `zname` renamed (one level)"""
    out = {zname}
    for n in ast.walk(fn_node):
        if isinstance(n, ast.Assign) and len(n.targets) == 1 and isinstance(n.targets[0], ast.Name):
            v = n.value
            if isinstance(v, ast.Call) and len(v.args) == 1 and isinstance(v.args[0], ast.Name) and v.args[0].id in out \
                    and norm(v.func).split(".")[-1] in ("array", "asarray", "float", "abs"):
                out.add(n.targets[0].id)
            elif isinstance(v, ast.Name) and v.id in out:
                out.add(n.targets[0].id)
    return out


def _mod_sites(root, znames):
    for n in ast.walk(root):
        if isinstance(n, ast.BinOp) and isinstance(n.op, ast.Mod):
            left = n.left
            if isinstance(left, ast.Call) and len(left.args) == 1 and norm(left.func).split(".")[-1] in ("array", "asarray", "float"):
                left = left.args[0]
            if isinstance(left, ast.Name) and left.id in znames:
                r = n.right
                if isinstance(r, ast.Constant) and isinstance(r.value, (int, float)) and not isinstance(r.value, bool):
                    yield n, r.value
                else:
                    yield n, None


def powmod(ctx, rep, sc):
    ix = ctx.index
    rep.rule(RULE, "for every rule function registered with add_decomps(\"Pow(G)\", …) where G has a finite exact order ord(G) (exact matrix "
             "powers; for non-Gaussian-rational matrices the modulus of G.pow): every literal `z % m` in the rule body and in its "
             "@register_condition predicates has m a positive multiple of ord(G)")
    n_sites = n_regs = 0
    for reg in sc.registrations():
        if reg.kind != "Pow" or not isinstance(reg.base, ClassInfo):
            continue
        G = reg.base
        order = _order(ix, G)
        src = "exact matrix powers"
        if order is None:
            k, mod, _ = opfacts.classify_pow(ix, G)
            if k == "mod" and isinstance(mod, int):
                order, src = mod, f"{G.name}.pow reduces z % {mod}"
        n_regs += 1
        for ref in reg.rules:
            ri = ref.rule
            if ri is None:
                continue
            fn = ri.func.node
            rep.analysed(ri.func.module.relpath, ri.func.qualname)
            a = fn.args
            names = [x.arg for x in a.posonlyargs + a.args + a.kwonlyargs]
            zname = "z" if "z" in names else None
            roots = []
            if zname:
                roots.append((fn, _z_names(fn, zname)))
            for d in fn.decorator_list:
                if isinstance(d, ast.Call) and "register_condition" in norm(d.func):
                    for lam in [x for x in ast.walk(d) if isinstance(x, ast.Lambda)]:
                        ln = [x.arg for x in lam.args.posonlyargs + lam.args.args + lam.args.kwonlyargs]
                        if "z" in ln:
                            roots.append((lam.body, {"z"}))
            seen = set()
            for root, zn in roots:
                for node, m in _mod_sites(root, zn):
                    if id(node) in seen:
                        continue
                    seen.add(id(node))
                    n_sites += 1
                    where = f"{ri.func.module.relpath}:{ri.func.qualname} `{norm(node)}` [Pow({G.name})]"
                    if order is None:
                        rep.unknown(RULE, where, f"order of {G.name} not known exactly")
                    elif m is None:
                        rep.unknown(RULE, where, "modulus is not a literal")
                    elif m > 0 and float(m).is_integer() and int(m) % order == 0:
                        rep.proved(RULE, where, f"{m} is a multiple of ord({G.name}) = {order} ({src})")
                    else:
                        rep.refuted(RULE, ri.func.module.relpath, ri.func.qualname, node,
                                    f"rule for Pow({G.name}) looks at `{norm(node)}`, but {G.name} has order {order} ({src}) and {m} is not a multiple of it: "
                                    f"z and z + {m} are treated alike although {G.name}**z and {G.name}**(z + {m}) are different operators, so the rule "
                                    "emits the wrong circuit (or is selected wrongly) for one of them", line=node.lineno)
    rep.floor("Pow(G) registrations examined", n_regs, 8)
    rep.floor("exponent reductions (z % m) in Pow rules and their conditions", n_sites, 10)
