"""C09 — declared parameter frequencies cover the true spectrum (R-C09-cover, engine E4).

For every gate with *explicitly declared* frequencies — a class attribute
``parameter_frequencies = [(...), ...]`` on an operator class, or a ``@parameter_frequencies.register``
handler that returns a literal — the declaration must contain the frequency closure
``{|f - f'|} \\ {0}`` of the Fourier support ``F`` of the class's own ``compute_matrix`` in that
parameter.  ``declared ⊇ Δ(F)`` is proved on the over-approximation; ``Δ(F) ⊄ declared`` is
refuted only when E4 resolved the support exactly.
"""

from __future__ import annotations

import ast
from fractions import Fraction

from .. import trigdom as T
from ..cfg import walk_shallow
from ..core import AnalysisError, Report, norm
from ..index import ClassInfo, FuncInfo

PS = "pennylane/gradients/parameter_shift.py"
RULE = "R-C09-cover"


def _num(node):
    """literal real number (int/float, unary minus, a/b) -> Fraction or None."""
    if isinstance(node, ast.Constant) and isinstance(node.value, (int, float)) and not isinstance(node.value, bool):
        c = T.cx_of(node.value)
        return None if c is None else c.re
    if isinstance(node, ast.UnaryOp) and isinstance(node.op, (ast.USub, ast.UAdd)):
        v = _num(node.operand)
        return None if v is None else (-v if isinstance(node.op, ast.USub) else v)
    if isinstance(node, ast.BinOp) and isinstance(node.op, (ast.Div, ast.Mult)):
        a, b = _num(node.left), _num(node.right)
        if a is None or b is None or (isinstance(node.op, ast.Div) and not b):
            return None
        return a / b if isinstance(node.op, ast.Div) else a * b
    return None


def literal_frequencies(node):
    """``[(f, ...), ...]`` -> list of frozensets of |f| (None if it is not such a literal)."""
    if not isinstance(node, (ast.List, ast.Tuple)):
        return None
    out = []
    for t in node.elts:
        if not isinstance(t, (ast.Tuple, ast.List)):
            return None
        fs = set()
        for e in t.elts:
            v = _num(e)
            if v is None:
                return None
            fs.add(abs(Fraction(v)))
        out.append(frozenset(fs))
    return out


def _is_register_of(ix, f: FuncInfo, target: FuncInfo):
    """decorator ``@<target>.register`` / ``@<target>.register(Cls)`` -> (True, explicit class expr | None)"""
    for d in f.node.decorator_list:
        expl = None
        if isinstance(d, ast.Call) and len(d.args) == 1 and not d.keywords:
            d, expl = d.func, d.args[0]
        if isinstance(d, ast.Attribute) and d.attr == "register":
            r = ix.resolve_expr(f.module, d.value)
            if r is target:
                return True, expl
    return False, None


def _fmt(fs):
    return "{" + ", ".join(str(f) for f in sorted(fs)) + "}"


def declarations(ix, rep):
    """-> list of dicts(cls, module, construct, node, freqs, kind)"""
    out = []
    # (a) class attributes
    for c in ix.classes:
        if not T.is_operator_class(c):
            continue
        dc, v = c.lookup("parameter_frequencies", stop_at=T.BASE_STOP)
        if dc is None or isinstance(v, FuncInfo):
            continue  # computed (property) or inherited from the base: R-C01-gen territory
        if dc is not c and c.own_method("compute_matrix") is None:
            continue  # inherits declaration and matrix: the same obligation as the parent's
        fr = literal_frequencies(v)
        where = f"{dc.module.relpath}:{c.name}.parameter_frequencies"
        if fr is None:
            rep.unknown(RULE, where, f"declaration is not a literal list of tuples of numbers: {norm(v)[:80]}")
            continue
        out.append({"cls": c, "module": dc.module.relpath, "construct": f"{c.name}.parameter_frequencies", "node": v, "freqs": fr,
                    "kind": "attribute", "where": where})
    # (b) singledispatch handlers returning literals
    target = ix.func(PS, "parameter_frequencies")
    if not any(norm(d).split(".")[-1] == "singledispatch" for d in target.node.decorator_list):
        raise AnalysisError(f"{PS}:parameter_frequencies is no longer a singledispatch function")
    n_handlers = 0
    for f in ix.functions:
        if not f.node.decorator_list or f.cls is not None:
            continue
        ok, expl = _is_register_of(ix, f, target)
        if not ok:
            continue
        n_handlers += 1
        rep.analysed(f.module.relpath, f.qualname)
        where = f"{f.module.relpath}:{f.qualname}"
        a = f.node.args
        pos = a.posonlyargs + a.args
        texpr = expl if expl is not None else (pos[0].annotation if pos else None)
        rets = [n for n in walk_shallow(f.node) if isinstance(n, ast.Return)]
        lits = [literal_frequencies(r.value) for r in rets]
        if not rets or any(x is None for x in lits):
            rep.exempt(RULE, where, "handler computes its result (no literal declaration)")
            continue
        if len({tuple(x) for x in lits}) != 1:
            rep.unknown(RULE, where, "handler returns different literals on different paths")
            continue
        cls = ix.resolve_expr(f.module, texpr) if texpr is not None else None
        if not isinstance(cls, ClassInfo):
            rep.unknown(RULE, where, f"dispatch type {norm(texpr)!r} does not resolve to a class of the package")
            continue
        out.append({"cls": cls, "module": f.module.relpath, "construct": f"{f.qualname}[{cls.name}]", "node": rets[0].value,
                    "freqs": lits[0], "kind": "handler", "where": where})
    return out, n_handlers


def check(ctx):
    ix = ctx.index
    rep = Report("C09", "for every gate with explicitly declared parameter frequencies, the declaration covers the frequency "
                 "closure of the gate's own matrix in that parameter.")
    rep.rule(RULE, "declarations = class attribute parameter_frequencies = [(...), ...] on operator classes and "
             "@parameter_frequencies.register handlers returning literals; for each parameter p with Fourier support F_p of the "
             "class's resolved compute_matrix (E4): declared_p ⊇ Δ(F_p) = {|f-f'|}\\{0} ⇒ proved; Δ(F_p) ⊄ declared_p with an "
             "exact F_p ⇒ refuted (a frequency is present that the shift rule does not cancel); inexact or unresolved F_p ⇒ unknown")
    rep.assume("gate parameters are scalars (a broadcast parameter stacks scalar matrices); every branch of compute_matrix "
               "(interfaces, batched/unbatched) is joined")
    rep.assume("an unknown constant written in the source (np.pi, sqrt(2), ones_like) is non-zero; calls on values that do not "
               "depend on a gate parameter return values that do not depend on it; unknown callees do not mutate their arguments")
    rep.assume("exact support F ⇒ every difference in Δ(F) is a frequency of some expectation value (generic observable and state)")
    rep.analysed(PS, "parameter_frequencies")

    decls, n_handlers = declarations(ix, rep)
    n_attr = sum(1 for d in decls if d["kind"] == "attribute")
    n_hand = sum(1 for d in decls if d["kind"] == "handler")
    n_proved = n_resolved = 0
    for d in decls:
        cls = d["cls"]
        rep.analysed(d["module"])
        info = T.analyse_matrix(ix, cls)
        if info.node is None:
            rep.unknown(RULE, d["where"], f"{cls.name}: {info.why} (frequencies of a decomposition-defined gate are not decided statically)")
            continue
        rep.analysed(info.node.module.relpath, info.node.qualname)
        for rel, qn in sorted(info.touched):
            rep.analysed(rel, qn)
        if len(info.params) != len(d["freqs"]):
            rep.unknown(RULE, d["where"], f"{cls.name}: {len(d['freqs'])} declared tuples but compute_matrix has gate parameters {info.params}")
            continue
        for p, declared in zip(info.params, d["freqs"]):
            sup = info.support.get(p)
            where = f"{d['where']} [{cls.name}.{p}]"
            if sup is None or sup.freqs is None:
                rep.unknown(RULE, where, f"support of {cls.name}.compute_matrix in {p} is Top ({info.why})")
                continue
            n_resolved += 1
            cl = T.closure(sup)
            declared_nz = frozenset(f for f in declared if f)
            missing = cl - declared_nz
            if not missing:
                n_proved += 1
                rep.proved(RULE, where, f"F={sup!r} Δ={_fmt(cl)} ⊆ declared {_fmt(declared_nz)}")
            elif sup.exact:
                rep.refuted(RULE, d["module"], d["construct"], d["node"],
                            f"{cls.name}: parameter `{p}` — compute_matrix ({info.node.module.relpath}:{info.node.qualname}) has the exact "
                            f"Fourier support {_fmt(sup.freqs)}, so expectation values contain the frequencies {_fmt(cl)}; the declared "
                            f"{_fmt(declared_nz)} misses {_fmt(missing)}: the parameter-shift rule built from the declaration does not "
                            f"cancel them and returns a wrong gradient", param=p, cls=cls.fq)
            else:
                rep.unknown(RULE, where, f"F={sup!r} is an over-approximation; Δ={_fmt(cl)} ⊄ declared {_fmt(declared_nz)} cannot be decided")
    rep.floor("class-attribute declarations (literal parameter_frequencies)", n_attr, 13)
    rep.floor("@parameter_frequencies.register handlers", n_handlers, 9)
    rep.floor("literal-returning handlers", n_hand, 6)
    rep.floor("declared parameters whose support E4 resolved", n_resolved, 23)
    rep.floor("declared parameters proved covered", n_proved, 23)
    # ---- partial-key memos on the frequency path ---------------------------------------------------------------------
    from .. import memo

    rep.rule("R-C09-memo", "no function on the parameter-frequency path (gradients/, core/operator/, ops/op_math/) memoises a value computed from an "
             "operator under a key that contains the operator only through projections (type(op), len(op.wires), op.name …): frequencies derived "
             "from a generator differ between operators of one type and size (controlled gates with different bases)")
    n_m = memo.report(ix, rep, "R-C09-memo", ("pennylane/gradients/", "pennylane/core/operator/", "pennylane/ops/op_math/", "pennylane/ops/functions/"),
                      "operators")
    if not n_m:
        rep.proved("R-C09-memo", "frequency path", "no partial-key memo (positive examples are kept as self-test variants)", nontrivial=False)
    return rep
