"""C40 rules added after independent seeded changes:

* R-C40-canon — `bind_new_parameters` pairs the given values with `sorted(indices)` while `get_parameters`
  walks `trainable_params` in stored order; "binding the current parameters reproduces an equal circuit"
  therefore needs `_trainable_params` to be stored in ascending order.  Every store of an outside value
  must canonicalise it (sorted(...)), None and `list(range(...))` are sorted by construction.
* R-C40-cache — `copy(**update)` may carry a cached derived value of the original over to the new script only
  when no constructor input that the cached value depends on is being replaced.  Dependencies are read off
  the body of the function that computes the cache.
"""

from __future__ import annotations

import ast

from ..astutil import expand_locals, call_name, inline_single_defs as _inline_single_defs, read_through as _read_through
from ..cfg import walk_shallow
from ..core import norm
from ..index import FuncInfo

QS = "pennylane/core/qscript.py"
FIELD_OF = {"operations": "operations", "_ops": "operations", "measurements": "measurements", "_measurements": "measurements",
            "observables": "measurements", "shots": "shots", "_shots": "shots", "trainable_params": "trainable_params",
            "_trainable_params": "trainable_params", "circuit": "operations+measurements"}
SLOT_COMPUTED_BY = {"_batch_size": "_update_batch_size", "_obs_sharing_wires": "_update_observables",
                    "_obs_sharing_wires_id": "_update_observables", "_graph": "graph", "_specs": "specs"}


def _deps(cls, name, depth=0, seen=None):
    seen = seen or set()
    if name in seen or depth > 3:
        return set()
    seen.add(name)
    c, f = cls.lookup(name)
    if not isinstance(f, FuncInfo):
        return set()
    out = set()
    for n in walk_shallow(f.node):
        if isinstance(n, ast.Attribute) and isinstance(n.value, ast.Name) and n.value.id == "self":
            fld = FIELD_OF.get(n.attr)
            if fld:
                out |= set(fld.split("+"))
            elif n.attr != name and isinstance(cls.lookup(n.attr)[1], FuncInfo) and n.attr not in ("copy",):
                out |= _deps(cls, n.attr, depth + 1, seen)
        if isinstance(n, (ast.For, ast.comprehension)) and isinstance(n.iter, ast.Name) and n.iter.id == "self":
            out |= {"operations", "measurements"}
    return out


def _excluded_keys(conds, defs=None):
    """update keys that are certainly NOT being replaced under the conjunction of (test, polarity) conditions"""
    ALL = {"operations", "measurements", "shots", "trainable_params"}
    out = set()
    for test, pol in conds:
        t = _read_through(test, defs) if defs else test
        neg = not pol
        while isinstance(t, ast.UnaryOp) and isinstance(t.op, ast.Not):
            t, neg = t.operand, not neg
        # `copy_operations or update` false  => update empty
        if isinstance(t, ast.BoolOp) and isinstance(t.op, ast.Or) and neg and any(isinstance(v, ast.Name) and v.id == "update" for v in t.values):
            out |= ALL
        if isinstance(t, ast.Name) and t.id == "update" and neg:
            out |= ALL
        # "k" not in update   (NOT `not update.get("k")`: an update to an empty/falsy value — copy(operations=[]) — passes that test
        #  although the key is being replaced)
        if isinstance(t, ast.Compare) and len(t.ops) == 1 and isinstance(t.left, ast.Constant) and norm(t.comparators[0]) == "update":
            if (isinstance(t.ops[0], ast.NotIn) and not neg) or (isinstance(t.ops[0], ast.In) and neg):
                out.add(t.left.value)
        if isinstance(t, ast.BoolOp) and isinstance(t.op, ast.And) and not neg:
            out |= _excluded_keys([(v, True) for v in t.values], defs)
        if isinstance(t, ast.BoolOp) and isinstance(t.op, ast.Or) and neg:
            out |= _excluded_keys([(v, False) for v in t.values], defs)
    if "ops" in out:
        out.add("operations")
    return out


def extra(ctx, rep):
    ix = ctx.index
    rep.rule("R-C40-canon", "every store of an outside value into QuantumScript._trainable_params canonicalises it to ascending order "
             "(sorted(...)), because bind_new_parameters pairs values with sorted(indices) while get_parameters reads the stored order")
    rep.rule("R-C40-cache", "QuantumScript.copy(**update) carries a cached derived value (batch size, shared-wire observables, graph, "
             "cached properties such as par_info) to the new script only under a guard that excludes every update key the cached value "
             "depends on (dependencies read off the computing function)")
    qs = ix.cls(QS, "QuantumScript")
    n_store = 0
    for name, fl in qs.methods.items():
        for f in fl:
            params = {a.arg for a in f.node.args.args[1:]}
            for st in walk_shallow(f.node):
                if not (isinstance(st, ast.Assign) and any(norm(t) == "self._trainable_params" for t in st.targets)):
                    continue
                n_store += 1
                v = st.value
                where = f"{QS}:{f.qualname} {norm(st)[:80]}"

                def kind(e):
                    if isinstance(e, ast.Constant) and e.value is None:
                        return "sorted"
                    if isinstance(e, ast.Call):
                        cn = call_name(e) or ""
                        if cn == "sorted":
                            return "sorted"
                        if cn == "list" and e.args and isinstance(e.args[0], ast.Call) and call_name(e.args[0]) == "range":
                            return "sorted"
                        if cn in ("list", "tuple") and len(e.args) == 1 and kind(e.args[0]) == "sorted":
                            return "sorted"
                        if cn in ("list", "tuple") and e.args and ({x.id for x in ast.walk(e.args[0]) if isinstance(x, ast.Name)} & params):
                            return "unsorted-outside"
                        if ({x.id for x in ast.walk(e) if isinstance(x, ast.Name)} & params) and "sorted" not in norm(e):
                            return "unsorted-outside"
                        return "unknown"
                    if isinstance(e, ast.Name) and e.id in params:
                        return "unsorted-outside"
                    if isinstance(e, ast.IfExp):
                        ks = {kind(e.body), kind(e.orelse)}
                        if "unsorted-outside" in ks:
                            return "unsorted-outside"
                        return "sorted" if ks == {"sorted"} else "unknown"
                    return "unknown"

                k = kind(expand_locals(f.node, st, v))
                if k == "sorted":
                    rep.proved("R-C40-canon", where, "None / sorted(...) / list(range(...))")
                elif k == "unsorted-outside":
                    rep.refuted("R-C40-canon", QS, f.qualname, st,
                                "stores caller-supplied trainable indices without sorting them: get_parameters() then returns the values in the "
                                "caller's order while bind_new_parameters pairs values with sorted(indices), so binding a circuit's own current "
                                "parameters permutes them (and the trainable_params setter, which sorts, disagrees with this store)")
                else:
                    rep.unknown("R-C40-canon", where, "stored value form not modelled")
    rep.floor("stores to _trainable_params", n_store, 3)

    cache_part(ix, rep)


def _falsy_guard_keys(conds):
    out = set()
    for test, pol in conds:
        for x in ast.walk(test):
            if isinstance(x, ast.Call) and norm(x.func) == "update.get" and x.args and isinstance(x.args[0], ast.Constant):
                out.add(x.args[0].value)
    return out


def cache_part(ix, rep, rule="R-C40-cache", slots=None, floor=3):
    """shared by C40 (all carried caches) and C05 (the memoised `hash`, rule R-C05-stale)"""
    qs = ix.cls(QS, "QuantumScript")
    cp = qs.own_method("copy")
    if cp is None:
        return
    newname = None
    for st in walk_shallow(cp.node):
        if isinstance(st, ast.Assign) and isinstance(st.value, ast.Call) and norm(st.value.func) in ("self.__class__", "type(self)", "QuantumScript"):
            newname = st.targets[0].id if isinstance(st.targets[0], ast.Name) else None
    if newname is None:
        rep.unknown(rule, f"{QS}:QuantumScript.copy", "construction of the new script not recognised")
        return

    n_carry = 0
    local_vals = {}
    for x_ in ast.walk(cp.node):
        if isinstance(x_, ast.NamedExpr) and isinstance(x_.target, ast.Name):
            local_vals[x_.target.id] = x_.value
    for k_, v_ in _inline_single_defs(cp.node).items():
        local_vals.setdefault(k_, v_)

    def visit(body, conds):
        nonlocal n_carry
        for st in body:
            if isinstance(st, ast.If):
                visit(st.body, conds + [(st.test, True)])
                visit(st.orelse, conds + [(st.test, False)])
                continue
            if not isinstance(st, ast.Assign):
                continue
            t = st.targets[0]
            slot = None
            if isinstance(t, ast.Attribute) and isinstance(t.value, ast.Name) and t.value.id == newname:
                slot = t.attr
            elif isinstance(t, ast.Subscript) and norm(t.value) == f"{newname}.__dict__" and isinstance(t.slice, ast.Constant):
                slot = t.slice.value
            if slot is None or (slots is not None and slot not in slots):
                continue
            # which expression carries self's cache, and under which extra conditions (IfExp)?
            branches = []
            v = st.value
            if isinstance(v, ast.IfExp):
                branches = [(v.body, conds + [(v.test, True)]), (v.orelse, conds + [(v.test, False)])]
            else:
                branches = [(v, conds)]
            for e, cs in branches:
                if isinstance(e, ast.Name) and e.id in local_vals:
                    e = local_vals[e.id]  # `if (cached := self.__dict__.get("wires")) is not None: new.__dict__["wires"] = cached`
                reads_self = any(isinstance(x, ast.Attribute) and isinstance(x.value, ast.Name) and x.value.id == "self" for x in ast.walk(e)) \
                    or "self.__dict__" in norm(e)
                if not reads_self:
                    continue
                n_carry += 1
                comp = SLOT_COMPUTED_BY.get(slot, slot)
                deps = _deps(qs, comp)
                where = f"{QS}:QuantumScript.copy carries `{slot}`"
                if not deps:
                    rep.unknown(rule, where, f"dependencies of `{comp}` not resolved")
                    continue
                excl = _excluded_keys(cs, _inline_single_defs(cp.node))
                missing = sorted(deps - excl)
                if missing:
                    falsy = sorted(set(missing) & _falsy_guard_keys(cs))
                    how = (f"the guard tests `update.get({falsy[0]!r})` for truthiness, which also holds when the key is replaced by an empty value: "
                           f"`tape.copy({falsy[0]}=[])`" if falsy else f"the guard does not exclude an update of {missing}: `tape.copy({missing[0]}=…)`")
                    rep.refuted(rule, QS, "QuantumScript.copy", st,
                                f"copy() carries the original's cached `{slot}` over although `{comp}` depends on {sorted(deps)} and {how} "
                                f"returns a circuit whose `{slot}` still describes the original")
                else:
                    rep.proved(rule, where, f"depends on {sorted(deps)}; carried only when none of them is updated")

    visit(cp.node.body, [])
    if floor:
        rep.floor("cached values carried over by copy()", n_carry, floor)
    return n_carry
