"""C10 — every registered decomposition rule implements its operator exactly: the necessary
conditions that are properties of the rule's text and of the registrations (E3 rulescan + opfacts).

* R-C10-wires  every wire argument of an operator constructed in a rule body (identified through the
               resolved constructor signature / ``wire_argnames``) derives from the rule's parameters or an
               ``allocate()`` target — never a literal label.  Expected count on the tree: zero, so an embedded
               positive control must match on every run.
* R-C10-sym    generic symbolic rules attached with ``add_decomps("Adjoint(N)" | "Pow(N)", rule)`` agree with
               class N's own ``adjoint()`` / ``pow()`` (two independent declarations of one algebraic fact).
* R-C10-names  the operator part of every registry string and every class passed to ``add_decomps`` resolves.
* R-C10-keys   ``resource_params`` returns exactly the keys in ``resource_keys``; the resource function of every
               rule attached to operator N accepts exactly the keywords it will be called with.
"""

from __future__ import annotations

import ast
import re

from ..cfg import walk_shallow
from ..core import AnalysisError, Report, norm
from ..index import ClassInfo, FuncInfo
from ..opfacts import classify_adjoint, classify_pow
from ..rulescan import get_scanner

GENERIC_MODULES = ("pennylane/decomposition/symbolic_decomposition.py", "pennylane/ops/op_math/adjoint2.py", "pennylane/ops/op_math/pow2.py")
SELF_ADJOINT = {"decompose_to_base", "decompose_to_base_legacy"}
CONTROL_MODULE = "pennylane/ops/qubit/non_parametric_ops.py"
CONTROL_SRC = '''
def _pennyverif_control_rule(theta, wires, **_):
    qp.H(0)
    qp.CNOT([wires[0], "aux"])
    w = 1
    qp.X(w)
    qp.Y(wires[0])
    qp.RX(0.5, wires=wires[1])
    qp.PauliRot(theta, "ZZ", wires)
'''
FLOOR_WIRE_ARGS = 1200
FLOOR_SYM = 85
FLOOR_REGS = 250
FLOOR_KEYCLASSES = 80
FLOOR_SIGS = 180

WIRE_PASS_THROUGH = {"Wires", "list", "tuple", "reversed", "sorted", "array", "asarray", "tolist", "subset", "toarray", "copy", "flip", "concatenate"}


# ------------------------------------------------------------------------------------------ wires
def _join(a, b):
    order = {"literal": 0, "unknown": 1, "derived": 2}
    return a if order[a[0]] <= order[b[0]] else b


class _Prov:
    """provenance of a wires expression inside a (possibly nested) function"""

    def __init__(self, top: ast.AST, top_params_derived=True):
        self.top = top
        self.parents = {}
        for p in ast.walk(top):
            for c in ast.iter_child_nodes(p):
                self.parents[c] = p
        self.top_params_derived = top_params_derived
        self._visiting = set()

    def scopes(self, node):
        out = []
        cur = node
        while cur in self.parents:
            cur = self.parents[cur]
            if isinstance(cur, (ast.FunctionDef, ast.AsyncFunctionDef, ast.Lambda)):
                out.append(cur)
        if not out or out[-1] is not self.top:
            out.append(self.top)
        return out  # innermost first

    def status(self, e, at, depth=0, bound=None):
        D, U = ("derived", None), ("unknown", None)
        bound = bound or {}
        if depth > 12 or e is None:
            return U
        if isinstance(e, ast.Constant):
            if e.value is None:
                return D
            if isinstance(e.value, (int, str)) and not isinstance(e.value, bool):
                return ("literal", e)
            return U
        if isinstance(e, (ast.List, ast.Tuple, ast.Set)):
            r = D
            for x in e.elts:
                r = _join(r, self.status(x, at, depth + 1, bound))
            return r
        if isinstance(e, ast.Starred):
            return self.status(e.value, at, depth + 1, bound)
        if isinstance(e, ast.Name):
            if e.id in bound:
                return bound[e.id]
            return self.name_status(e.id, at, depth)
        if isinstance(e, ast.Attribute):
            r = self.status(e.value, at, depth + 1, bound)
            return D if r[0] == "derived" else U
        if isinstance(e, ast.Subscript):
            r = self.status(e.value, at, depth + 1, bound)
            return r if r[0] != "literal" else U
        if isinstance(e, ast.BinOp):
            return _join(self.status(e.left, at, depth + 1, bound), self.status(e.right, at, depth + 1, bound))
        if isinstance(e, ast.IfExp):
            return _join(self.status(e.body, at, depth + 1, bound), self.status(e.orelse, at, depth + 1, bound))
        if isinstance(e, ast.Call):
            fn = e.func
            nm = fn.attr if isinstance(fn, ast.Attribute) else (fn.id if isinstance(fn, ast.Name) else "")
            if nm in WIRE_PASS_THROUGH:
                if e.args:
                    return self.status(e.args[0], at, depth + 1, bound)
                if isinstance(fn, ast.Attribute):
                    return self.status(fn.value, at, depth + 1, bound)
            return U
        if isinstance(e, (ast.ListComp, ast.GeneratorExp, ast.SetComp)):
            b = dict(bound)
            for g in e.generators:
                it = self.status(g.iter, at, depth + 1, b)
                for n in ast.walk(g.target):
                    if isinstance(n, ast.Name):
                        b[n.id] = D if it[0] == "derived" else U
            return self.status(e.elt, at, depth + 1, b)
        return U

    def name_status(self, name, at, depth):
        D, U = ("derived", None), ("unknown", None)
        for sc in self.scopes(at):
            a = sc.args
            if (name, id(sc)) in self._visiting:
                # `wires = math.array(wires)`: the right-hand side reads the previous binding
                ps = [x.arg for x in a.posonlyargs + a.args + a.kwonlyargs] + ([a.vararg.arg] if a.vararg else []) + ([a.kwarg.arg] if a.kwarg else [])
                if name in ps:
                    return D if (sc is self.top and self.top_params_derived) else U
                return D  # neutral element of the join: the other bindings decide
            self._visiting.add((name, id(sc)))
            try:
                r = self._name_in_scope(name, sc, depth)
            finally:
                self._visiting.discard((name, id(sc)))
            if r is not None:
                return r
        return U

    def _name_in_scope(self, name, sc, depth):
        D, U = ("derived", None), ("unknown", None)
        if True:
            a = sc.args
            params = [x.arg for x in a.posonlyargs + a.args + a.kwonlyargs] + ([a.vararg.arg] if a.vararg else []) + ([a.kwarg.arg] if a.kwarg else [])
            binds = []
            if not isinstance(sc, ast.Lambda):
                for n in walk_shallow(sc):
                    if n is sc:
                        continue
                    if isinstance(n, ast.Assign):
                        for t in n.targets:
                            if isinstance(t, ast.Name) and t.id == name:
                                binds.append(("value", n.value))
                            elif isinstance(t, (ast.Tuple, ast.List)) and any(isinstance(x, ast.Name) and x.id == name for x in ast.walk(t)):
                                binds.append(("unpack", n.value))
                    elif isinstance(n, ast.AnnAssign) and isinstance(n.target, ast.Name) and n.target.id == name and n.value is not None:
                        binds.append(("value", n.value))
                    elif isinstance(n, (ast.For, ast.AsyncFor)) and any(isinstance(x, ast.Name) and x.id == name for x in ast.walk(n.target)):
                        binds.append(("iter", n.iter))
                    elif isinstance(n, (ast.With, ast.AsyncWith)):
                        for it in n.items:
                            if it.optional_vars is not None and any(isinstance(x, ast.Name) and x.id == name for x in ast.walk(it.optional_vars)):
                                binds.append(("with", it.context_expr))
            if binds:
                r = D if name not in params or (sc is self.top and self.top_params_derived) else U
                if name in params and not (sc is self.top and self.top_params_derived):
                    r = U
                for kind, v in binds:
                    if kind == "with":
                        s = D if isinstance(v, ast.Call) and norm(v.func).split(".")[-1] == "allocate" else U
                    elif kind == "iter":
                        s = self.status(v, sc.body[0] if not isinstance(sc, ast.Lambda) else sc, depth + 1)
                        if isinstance(v, ast.Call) and norm(v.func) in ("enumerate", "zip", "range"):
                            s = U
                    else:
                        s = self.status(v, sc.body[0] if not isinstance(sc, ast.Lambda) else sc, depth + 1)
                        if kind == "unpack" and s[0] == "literal":
                            s = U
                    r = _join(r, s)
                return r
            if name in params:
                if sc is self.top:
                    return D if self.top_params_derived else U
                return U  # parameter of a nested function (loop index, callback argument)
        return None


def _wire_exprs(e):
    out = []
    if e.wires is not None:
        out.append(("wires", e.wires))
    for k, v in (e.extra_wires or {}).items():
        if isinstance(v, ast.AST):
            out.append((k, v))
    return out


def _check_wires(ix, sc, rep, rules, control=False):
    funcs = {}
    for f in ix.functions:
        funcs.setdefault((f.module.relpath, f.qualname), f)
    n_args = n_lit = n_derived = 0
    provs = {}
    for ri in rules:
        seen = set()
        for e in ri.emissions:
            fn = funcs.get((e.module, e.func)) if not control else ri.func
            if fn is None:
                fn = ri.func if (e.module, e.func) == (ri.module.relpath, ri.qualname) else None
            if fn is None:
                continue
            # the text of the emission must lie inside that function (nested defs included)
            pv = provs.get(id(fn.node))
            if pv is None:
                pv = provs[id(fn.node)] = _Prov(fn.node)
            if e.node not in pv.parents:
                continue
            for argname, w in _wire_exprs(e):
                if id(w) in seen:
                    continue
                seen.add(id(w))
                n_args += 1
                st, node = pv.status(w, e.node)
                where = f"{e.module}:{e.func}"
                if st == "literal":
                    n_lit += 1
                    if control:
                        continue
                    rep.refuted("R-C10-wires", e.module, e.func, e.node,
                                f"{e.func}: operator {e.key} is constructed with the literal wire label {norm(node)} in its {argname} argument "
                                f"({norm(w)[:60]}); a decomposition rule must act on the wires it is given for every labelling", line=getattr(e.node, "lineno", 0))
                elif st == "derived":
                    n_derived += 1
                    if not control:
                        rep.proved("R-C10-wires", f"{where} L{getattr(e.node, 'lineno', 0)} {e.key}.{argname}", "derived from the rule's parameters / an allocation")
                elif not control:
                    rep.unknown("R-C10-wires", f"{where} L{getattr(e.node, 'lineno', 0)} {e.key}.{argname}", f"provenance of {norm(w)[:50]} not established")
    return n_args, n_lit, n_derived


def _positive_control(ix, sc, rep):
    m = ix.module(CONTROL_MODULE)
    node = ast.parse(CONTROL_SRC).body[0]
    f = FuncInfo(m, node)
    deco = ast.parse("register_resources({})").body[0].value
    ri = sc.scan_rule(f, deco)
    n_args, n_lit, n_der = _check_wires(ix, sc, rep, [ri], control=True)
    if n_lit != 3 or n_der < 3 or n_args != 6:
        raise AnalysisError(f"R-C10-wires positive control failed: expected 3 literal-label arguments among 6, found {n_lit} literal / {n_der} derived of {n_args} "
                            "(the rule cannot see a literal wire any more)")
    rep.proved("R-C10-wires", "embedded positive control", "qp.H(0), qp.CNOT([wires[0], 'aux']), w = 1; qp.X(w) flagged; wires[0] / wires[1] / wires accepted; "
               "RX(0.5, ...) angle not mistaken for a wire", nontrivial=False)


# ------------------------------------------------------------------------------------------ sym
def _generic_kind(ref):
    """-> (kind, period) for a rule reference resolving to a generic symbolic rule, else (None, None)"""
    if ref.rule is not None and ref.rule.module.relpath in GENERIC_MODULES and ref.rule.func.parent is None:
        n = ref.rule.func.name
        if n in SELF_ADJOINT:
            return "self_adjoint", None
        if n in ("adjoint_rotation", "pow_rotation"):
            return n, None
    if ref.factory is not None and ref.factory.module.relpath in GENERIC_MODULES and ref.factory.name == "make_pow_decomp_with_period":
        p = ref.factory_args[0] if ref.factory_args else None
        if isinstance(p, ast.Constant) and isinstance(p.value, int):
            return "pow_period", p.value
        return "pow_period", None
    return None, None


def _check_sym(ix, sc, rep):
    n = 0
    seen_kinds = set()
    for reg in sc.registrations():
        if reg.kind not in ("Adjoint", "Pow") or not isinstance(reg.base, ClassInfo):
            continue
        N = reg.base
        for ref in reg.rules:
            kind, period = _generic_kind(ref)
            if kind is None:
                continue
            where = f"{reg.module.relpath}: add_decomps({reg.target_text}, {ref.text})"
            stmt = f"add_decomps({reg.target_text}, {ref.text})"
            line = reg.node.lineno
            if (kind in ("self_adjoint", "adjoint_rotation")) != (reg.kind == "Adjoint"):
                if kind == "self_adjoint":
                    continue  # decompose_to_base attached to something else than an adjoint: not this rule
                rep.refuted("R-C10-sym", reg.module.relpath, f"add_decomps {reg.target_text}", stmt,
                            f"generic rule {ref.text} ({kind}) is attached to {reg.target_text}: an adjoint rule on a power or vice versa", line=line)
                continue
            n += 1
            seen_kinds.add(kind)
            if reg.kind == "Adjoint":
                k, d = classify_adjoint(ix, N)
                txt = d.get("text", "")
                if kind == "self_adjoint":
                    if k == "identical":
                        rep.proved("R-C10-sym", where, f"{N.name}.adjoint() returns the same operator")
                    elif k == "unknown":
                        rep.unknown("R-C10-sym", where, f"{N.name}.adjoint() not classified: {txt[:80]}")
                    else:
                        why = {"negated": f"{N.name}.adjoint() negates its parameter ({txt[:80]})", "none": f"{N.name} defines no adjoint() returning the same operator",
                               "generic": f"{N.name} does not override adjoint(): nothing declares it self-adjoint"}.get(k, f"{N.name}.adjoint() is not identical: {k} ({txt[:80]})")
                        rep.refuted("R-C10-sym", reg.module.relpath, f"add_decomps {reg.target_text}", stmt,
                                    f"self_adjoint rule ({ref.text}: Adjoint({N.name}) -> {N.name}) is attached to {reg.target_text} but {why}", line=line)
                else:  # adjoint_rotation
                    if k == "negated" and d.get("dynamic") == 1:
                        rep.proved("R-C10-sym", where, f"{N.name}.adjoint() negates its single dynamic parameter")
                    elif k in ("none", "generic", "unknown"):
                        rep.unknown("R-C10-sym", where, f"{N.name}.adjoint(): {k}")
                    else:
                        rep.refuted("R-C10-sym", reg.module.relpath, f"add_decomps {reg.target_text}", stmt,
                                    f"adjoint_rotation rule ({ref.text}: negate the one rotation angle) is attached to {reg.target_text} but {N.name}.adjoint() is "
                                    f"{k} with {d.get('dynamic')} negated argument(s): {txt[:80]}", line=line)
            else:
                k, mod, d = classify_pow(ix, N)
                txt = d.get("text", "")
                if kind == "pow_rotation":
                    if k == "scaled":
                        rep.proved("R-C10-sym", where, f"{N.name}.pow(z) multiplies its parameter by z")
                    elif k in ("none", "generic", "unknown"):
                        rep.unknown("R-C10-sym", where, f"{N.name}.pow(): {k} (not overridden: nothing to contradict)")
                    else:
                        rep.refuted("R-C10-sym", reg.module.relpath, f"add_decomps {reg.target_text}", stmt,
                                    f"pow_rotation rule ({ref.text}: multiply the angle by z) is attached to {reg.target_text} but {N.name}.pow() is {k}"
                                    + (f" (reduces z % {mod})" if mod else "") + f": {txt[:80]}", line=line)
                else:  # pow_period
                    if period is None:
                        rep.unknown("R-C10-sym", where, "period is not a literal")
                    elif k == "mod" and mod == period:
                        rep.proved("R-C10-sym", where, f"{N.name}.pow(z) reduces z % {mod}")
                    elif k == "mod":
                        rep.refuted("R-C10-sym", reg.module.relpath, f"add_decomps {reg.target_text}", stmt,
                                    f"rule {ref.text} declares period {period} for powers of {N.name} but {N.name}.pow() uses z % {mod}", line=line)
                    elif k == "scaled":
                        rep.refuted("R-C10-sym", reg.module.relpath, f"add_decomps {reg.target_text}", stmt,
                                    f"rule {ref.text} declares period {period} for powers of {N.name} but {N.name}.pow() scales its parameter (no period): {txt[:80]}", line=line)
                    else:
                        rep.unknown("R-C10-sym", where, f"{N.name}.pow(): {k} (generic / not overridden: nothing to contradict)")
    return n, seen_kinds


# ------------------------------------------------------------------------------------------ names
def _check_names(ix, sc, rep):
    n = 0
    for reg in sc.registrations():
        where = f"{reg.module.relpath}: add_decomps({reg.target_text}, ...)"
        t = reg.node.args[0]
        if isinstance(t, ast.Constant) and isinstance(t.value, str):
            n += 1
            name = t.value
            while True:
                m = re.fullmatch(r"(Adjoint|Pow|C|Controlled)\((.+)\)", name)
                if not m:
                    break
                name = m.group(2)
            cls = sc.class_by_name(name)
            if cls is None or not sc.is_operator(cls):
                rep.refuted("R-C10-names", reg.module.relpath, f"add_decomps {reg.target_text}", f"add_decomps({reg.target_text}, ...)",
                            f"registry name {t.value!r}: {name!r} does not denote an operator class of the package — the rules registered under it can never be selected",
                            line=reg.node.lineno)
            else:
                rep.proved("R-C10-names", where, f"{name} -> {cls.fq}")
        elif isinstance(reg.target, ClassInfo):
            n += 1
            if sc.is_operator(reg.target):
                rep.proved("R-C10-names", where, reg.target.fq)
            else:
                rep.refuted("R-C10-names", reg.module.relpath, f"add_decomps {reg.target_text}", f"add_decomps({reg.target_text}, ...)",
                            f"{reg.target_text} resolves to {reg.target.fq}, which is not an operator class", line=reg.node.lineno)
        else:
            # a variable (re-registration inside a function) is not a registry literal
            inside = any(isinstance(p, (ast.FunctionDef, ast.AsyncFunctionDef)) and reg.node in list(ast.walk(p)) for p in ast.walk(reg.module.tree)
                         if isinstance(p, (ast.FunctionDef, ast.AsyncFunctionDef)))
            if inside:
                rep.exempt("R-C10-names", where, "target is a run-time value inside a function")
            else:
                rep.refuted("R-C10-names", reg.module.relpath, f"add_decomps {reg.target_text}", f"add_decomps({reg.target_text}, ...)",
                            f"module-level add_decomps target {reg.target_text} does not resolve to a class", line=reg.node.lineno)
    return n


# ------------------------------------------------------------------------------------------ keys
def _key_literal(v):
    """literal key set of a ``resource_keys`` value, or None"""
    if isinstance(v, ast.Set):
        els = v.elts
    elif isinstance(v, ast.Call) and norm(v.func) in ("set", "frozenset"):
        if not v.args:
            return frozenset()
        a = v.args[0]
        if not isinstance(a, (ast.Set, ast.Tuple, ast.List)):
            return None
        els = a.elts
    else:
        return None
    if all(isinstance(e, ast.Constant) and isinstance(e.value, str) for e in els):
        return frozenset(e.value for e in els)
    return None


def _params_literal(f: FuncInfo):
    """list of key sets, one per return of a ``resource_params`` property (None entries: not literal)"""
    out = []
    for n in walk_shallow(f.node):
        if isinstance(n, ast.Return) and n.value is not None:
            v = n.value
            if isinstance(v, ast.Dict) and all(isinstance(k, ast.Constant) and isinstance(k.value, str) for k in v.keys):
                out.append((frozenset(k.value for k in v.keys), n))
            else:
                out.append((None, n))
    return out


def _resource_keys(cls):
    c, v = cls.lookup("resource_keys")
    if isinstance(v, FuncInfo) or v is None:
        return None, c
    return _key_literal(v), c


def _is_op2(cls):
    return any(c.name == "Operator2" and c.module.name.startswith("pennylane.core.operator") for c in cls.mro())


def _check_keys(ix, sc, rep):
    n_cls = 0
    for c in ix.classes:
        if not sc.is_operator(c) or c.outer is not None:
            continue
        own_k = "resource_keys" in c.assigns
        own_p = c.own_method("resource_params") is not None
        if not (own_k or own_p):
            continue
        n_cls += 1
        where = f"{c.module.relpath}:{c.name}"
        keys, kc = _resource_keys(c)
        pc, pf = c.lookup("resource_params")
        if keys is None or not isinstance(pf, FuncInfo):
            rep.unknown("R-C10-keys", where, "resource_keys / resource_params not both literal")
            continue
        rets = _params_literal(pf)
        if not rets or any(k is None for k, _ in rets):
            rep.unknown("R-C10-keys", where, "resource_params does not return a dict display")
            continue
        bad = [(k, n) for k, n in rets if k != keys]
        if bad:
            k, node = bad[0]
            rep.refuted("R-C10-keys", c.module.relpath, f"{c.name}.resource_params", node,
                        f"{c.name}.resource_params returns the keys {sorted(k)} but {kc.name}.resource_keys declares {sorted(keys)}: "
                        f"resource_rep({c.name}, **op.resource_params) raises for every instance"
                        + (f" (missing {sorted(keys - k)})" if keys - k else "") + (f" (unexpected {sorted(k - keys)})" if k - keys else ""))
        else:
            rep.proved("R-C10-keys", where, f"keys {sorted(keys)}")
    return n_cls


def _call_keys(sc, reg):
    """keyword names a rule registered under ``reg`` is called with (resource function and rule
    body alike), or None when not determined"""
    N = reg.base
    if not isinstance(N, ClassInfo):
        return None
    op2 = _is_op2(N)
    if reg.kind is None:
        if op2:
            f = None
            for c in N.mro():
                if c.name == "Operator2":
                    break
                f = c.own_method("__init__")
                if f is not None:
                    break
            if f is None or f.node.args.vararg or f.node.args.kwarg:
                return None
            a = f.node.args
            return frozenset(x.arg for x in (a.posonlyargs + a.args)[1:] + a.kwonlyargs)
        keys, _ = _resource_keys(N)
        return keys
    return None


def _accepts(fnode_args: ast.arguments, passed: frozenset, bound=()):
    """would ``f(**{k: ... for k in passed})`` bind?  -> None if yes, else the reason"""
    a = fnode_args
    pos_only = [x.arg for x in a.posonlyargs]
    named = [x.arg for x in a.args + a.kwonlyargs]
    n_def = len(a.defaults)
    required = [x.arg for x in (a.posonlyargs + a.args)[: len(a.posonlyargs + a.args) - n_def]]
    required += [x.arg for x, d in zip(a.kwonlyargs, a.kw_defaults) if d is None]
    missing = [r for r in required if r not in passed and r not in bound]
    if missing:
        return f"required parameter(s) {missing} are never passed"
    if a.kwarg is None:
        extra = [k for k in sorted(passed) if k not in named]
        if extra:
            return f"keyword(s) {extra} are not accepted (no **kwargs)"
    if any(p in passed for p in pos_only):
        return "a positional-only parameter is passed by keyword"
    return None


def _check_signatures(ix, sc, rep):
    n = 0
    for reg in sc.registrations():
        keys = _call_keys(sc, reg)
        if keys is None:
            continue
        refs = []
        for ref in reg.rules:
            refs.append(ref)
            if ref.factory is not None and ref.factory.name == "flip_zero_control":
                refs.extend(ref.inner)
        for ref in refs:
            ri = ref.rule
            if ri is None or ri.func.parent is not None:
                continue
            rf = ri.resource_func
            if isinstance(rf, FuncInfo):
                args, name, node = rf.node.args, rf.qualname, rf.node
            elif isinstance(rf, ast.Lambda):
                args, name, node = rf.args, f"<lambda resources of {ri.qualname}>", rf
            else:
                continue
            n += 1
            bound = frozenset(ri.resource_bound)
            why = _accepts(args, keys, bound)
            where = f"{ri.module.relpath}:{ri.qualname} resources for {reg.target_text}"
            if why:
                rep.refuted("R-C10-keys", ri.module.relpath, ri.qualname, f"{name}({norm(args)}) called with {sorted(keys)}",
                            f"rule {ri.qualname} is registered for {reg.target_text}, whose rules are called with the keywords {sorted(keys)}, but its resource function "
                            f"{name}({norm(args)}): {why} — compute_resources raises TypeError for every instance", line=getattr(node, "lineno", 0))
            else:
                rep.proved("R-C10-keys", where, f"{name}({norm(args)[:60]}) binds {sorted(keys)}")
    return n


def check(ctx):
    ix = ctx.index
    rep = Report("C10", "three necessary conditions that are properties of a rule's text: it acts on the operator's wires for every labelling, generic "
                 "symbolic rules are attached only where the class's own adjoint()/pow() agrees, registry names denote operators and resource "
                 "functions accept the keys they are called with. Matrix equality is not decided.")
    rep.rule("R-C10-wires", "every wire argument (resolved constructor signature / wire_argnames; control= and work_wires= of ctrl) of an operator constructed in a "
             "@register_resources rule body or an inlined helper is derived from the function's parameters or a `with allocate(...) as w` target; a literal int/str label is refuted")
    rep.rule("R-C10-sym", "add_decomps('Adjoint(N)', self_adjoint*) => N.adjoint() returns the same operator; adjoint_rotation* => N.adjoint() negates its one dynamic "
             "argument; add_decomps('Pow(N)', pow_rotation*) => N.pow(z) scales the parameter; make_pow_decomp_with_period*(P) / pow_involutory* => N.pow reduces z % P")
    rep.rule("R-C10-names", "the operator part of every registry string and every class passed to add_decomps resolves to an operator class in the index")
    rep.rule("R-C10-keys", "the dict returned by resource_params has exactly the keys of the resource_keys literal (through the MRO); the resource function of every rule "
             "registered for a class binds the keywords the rule is called with (resource_keys, or the constructor arguments of an Operator2 class)")
    rep.assume("parameters of a rule function and of an inlined helper carry wires handed in by the caller; hyperparameter registers are derived")
    rep.assume("a class that does not override adjoint()/pow() below the generic base classes declares nothing: rotation / period rules attached to it are unknown, "
               "a self_adjoint rule attached to it is refuted (nothing declares the class self-adjoint)")
    rep.assume("decomposition rules of an Operator2 class are called with **op.arguments (every constructor argument), of a legacy class with **op.resource_params")
    sc = get_scanner(ix)
    rules = sc.rules()
    for ri in rules:
        rep.analysed(ri.module.relpath, ri.qualname)

    _positive_control(ix, sc, rep)
    n_args, n_lit, n_der = _check_wires(ix, sc, rep, rules)
    rep.floor("wire arguments of operators constructed in rule bodies", n_args, FLOOR_WIRE_ARGS)

    n_sym, kinds = _check_sym(ix, sc, rep)
    rep.floor("generic symbolic rule attachments", n_sym, FLOOR_SYM)
    if not rep.findings and kinds != {"self_adjoint", "adjoint_rotation", "pow_rotation", "pow_period"}:
        raise AnalysisError(f"R-C10-sym: generic rule kinds found {sorted(kinds)}: an anchor (self_adjoint / adjoint_rotation / pow_rotation / make_pow_decomp_with_period) vanished")

    n_regs = _check_names(ix, sc, rep)
    rep.floor("add_decomps registrations with a literal target", n_regs, FLOOR_REGS)

    n_cls = _check_keys(ix, sc, rep)
    rep.floor("operator classes declaring resource_keys / resource_params", n_cls, FLOOR_KEYCLASSES)
    n_sig = _check_signatures(ix, sc, rep)
    rep.floor("resource functions bound against their operator's keys", n_sig, FLOOR_SIGS)
    rep.extra["c10_counts"] = {"wire_args": n_args, "wire_derived": n_der, "wire_literal": n_lit, "sym_attachments": n_sym, "registrations": n_regs,
                               "key_classes": n_cls, "signatures": n_sig}  # fmt: skip
    rep.note(f"{n_args} wire arguments ({n_der} derived, {n_lit} literal); {n_sym} generic symbolic attachments; {n_regs} registrations; "
             f"{n_cls} classes with resource keys; {n_sig} resource-function signatures bound")
    from .c10_extra import extra
    from .c10_pow import powmod

    extra(ctx, rep)
    powmod(ctx, rep, sc)
    return rep
