"""C23 (one clause) — `+`, `*`, slicing, copying of a CompilePipeline behave like the corresponding list
operations: they build a new pipeline and leave their operands alone (effect property, engine E2)."""

from __future__ import annotations

import ast

from ..cfg import walk_shallow
from ..core import AnalysisError, Report, norm
from ..effects import Engine, Spec, T

MOD = "pennylane/core/transforms/compile_pipeline.py"
INPLACE = {"__init__", "__iadd__", "append", "extend", "insert", "pop", "remove", "add_marker", "remove_marker", "add_transform",
           "set_classical_component", "push_back", "prune_dynamic_transform"}
PIPE_SPEC = Spec(
    name="pipeline",
    alias_attrs=frozenset({"_compile_pipeline", "_markers"}),
    fresh_attrs=frozenset({"markers"}),
    copy_methods=frozenset({"__copy__", "copy"}),
    root_classes=frozenset({"CompilePipeline"}),
    share_attrs=frozenset({"_compile_pipeline", "_markers"}),
    mutating_methods=frozenset(INPLACE - {"__init__"}),  # calling the in-place API on an operand is a write to it
)


def check(ctx):
    ix = ctx.index
    rep = Report("C23", "the non-in-place operations of CompilePipeline (+, *, slicing, copy, comparisons, iteration, printing, "
                 "calling) build new objects and never modify their operands (result routing through stacked fan-out is slice "
                 "arithmetic over runtime batch sizes and is not decided).")
    rep.rule("R-C23-pure", "E2 effect analysis rooted at `self` (and `other`) of every CompilePipeline method that is not part of the "
             "in-place API: no write to _compile_pipeline / _markers / cotransform_cache of an operand, no mutating call on those containers")
    rep.rule("R-C23-fresh", "a pipeline returned by a pure operation shares no mutable container with an operand: the constructor stores "
             "a list it created itself, and _markers of the result is assigned from .copy() / a new dict")
    rep.assume("the in-place API (who-may-write) is " + ", ".join(sorted(INPLACE)))
    cls = ix.cls(MOD, "CompilePipeline")
    eng = Engine(ix, PIPE_SPEC, max_depth=3)
    n_pure = 0
    for name, fl in sorted(cls.methods.items()):
        for f in fl:
            if name in INPLACE or any(norm(d).endswith("overload") for d in f.node.decorator_list):
                continue
            if name.startswith("_") and not name.startswith("__") and not name.startswith("_CompilePipeline__"):
                # private helpers are judged through their callers: E2 summarises `self._helper(...)` at every call site of a pure
                # operation, so a helper that writes to self is a violation exactly when a pure operation reaches it
                callers = [g.qualname for nm2, fl2 in cls.methods.items() for g in fl2 if g is not f and any(
                    isinstance(c_, ast.Call) and isinstance(c_.func, ast.Attribute) and c_.func.attr == name and isinstance(c_.func.value, ast.Name)
                    and c_.func.value.id == "self" for c_ in ast.walk(g.node))]
                rep.proved("R-C23-pure", f"{MOD}:{f.qualname}", f"private helper, analysed at its call sites ({', '.join(sorted(callers)) or 'no caller in the class'})",
                           nontrivial=False)
                continue
            params = [a.arg for a in f.node.args.args]
            if not params or params[0] != "self":
                continue
            n_pure += 1
            rep.analysed(MOD, f.qualname)
            env = {"self": {T}}
            if len(params) > 1 and params[1] == "other":
                env["other"] = {T}
            res = eng.analyse(f, env)
            shares = [s for s in res.sinks if s.kind == "share"]
            writes = [s for s in res.sinks if s.kind != "share"]
            if not writes:
                rep.proved("R-C23-pure", f"{MOD}:{f.qualname}", "does not write to its operands")
            for s in writes:
                rep.refuted("R-C23-pure", MOD, f.qualname, s.node,
                            f"`{name}` is not part of the in-place API but {s.why}: an expression such as `p + q`, `p * n`, `p[a:b]` or `copy(p)` "
                            "changes the pipeline it is applied to", line=s.line)
            for s in shares:
                rep.refuted("R-C23-fresh", MOD, f.qualname, s.node, f"`{name}` {s.why}", line=s.line)
    rep.floor("pure CompilePipeline methods analysed", n_pure, 18)

    # module-level functions that receive a pipeline (the generic-dispatch handler transform(pipeline), helpers): same two rules
    n_fn = 0
    for mod in ix.modules.values():
        if not mod.relpath.startswith("pennylane/core/transforms/"):
            continue
        for f in ix.funcs_in(mod):
            if f.cls is not None or f.parent is not None or not f.node.args.args:
                continue
            a0 = f.node.args.args[0]
            if a0.annotation is None or "CompilePipeline" not in norm(a0.annotation):
                continue
            n_fn += 1
            rep.analysed(mod.relpath, f.qualname)
            res = eng.analyse(f, {a0.arg: {T}})
            if not res.sinks:
                rep.proved("R-C23-pure", f"{mod.relpath}:{f.qualname}", f"does not write to the pipeline `{a0.arg}` it is given nor share its containers")
            for s in res.sinks:
                rule = "R-C23-fresh" if s.kind == "share" else "R-C23-pure"
                rep.refuted(rule, mod.relpath, f.qualname, s.node,
                            f"`{f.name}` builds a new pipeline from `{a0.arg}` but {s.why}: editing the markers / transforms of the derived "
                            "pipeline in place then changes the original (and the other way round)", line=s.line)
    rep.floor("module-level functions taking a CompilePipeline", n_fn, 1)

    # R-C23-fresh: the constructor's fast path stores its own list
    init = [f for f in cls.methods.get("__init__", []) if not any(norm(d).endswith("overload") for d in f.node.decorator_list)]
    if not init:
        raise AnalysisError("CompilePipeline.__init__ vanished")
    f = init[0]
    rep.analysed(MOD, f.qualname)
    vararg = f.node.args.vararg.arg if f.node.args.vararg else None
    fresh_names = set()
    n_store = 0
    for st in ast.walk(f.node):
        if isinstance(st, ast.Assign) and len(st.targets) == 1 and isinstance(st.targets[0], ast.Name) and isinstance(st.value, ast.Call) \
                and norm(st.value.func) in ("list", "tuple", "sorted"):
            fresh_names.add(st.targets[0].id)
    for st in ast.walk(f.node):
        if isinstance(st, ast.Assign) and any(norm(t) == "self._compile_pipeline" for t in st.targets):
            n_store += 1
            v = st.value
            where = f"{MOD}:CompilePipeline.__init__ {norm(st)}"
            if isinstance(v, (ast.List, ast.ListComp)) or (isinstance(v, ast.Call) and norm(v.func) in ("list", "sorted")):
                rep.proved("R-C23-fresh", where, "stores a list created here")
            elif isinstance(v, ast.Name):
                rebinds = [a for a in ast.walk(f.node) if isinstance(a, ast.Assign) and any(isinstance(t, ast.Name) and t.id == v.id for t in a.targets)]
                adopt = [a for a in rebinds if isinstance(a.value, ast.Subscript) and isinstance(a.value.value, ast.Name)
                         and a.value.value.id == vararg and not isinstance(a.value.slice, ast.Slice)]
                fresh = [a for a in rebinds if isinstance(a.value, ast.Call) and norm(a.value.func) in ("list", "tuple", "sorted")]
                if adopt:
                    rep.refuted("R-C23-fresh", MOD, "CompilePipeline.__init__", adopt[0],
                                f"the constructor stores the caller's list object itself (`{norm(adopt[0])}` then `{norm(st)}`): a pipeline built "
                                "from another pipeline's list or from a user's list shares it, so in-place edits of one show up in the other")
                elif rebinds and len(fresh) == len(rebinds):
                    rep.proved("R-C23-fresh", where, f"`{v.id}` was rebound to list(...) before being stored")
                elif not rebinds and v.id == vararg:
                    rep.proved("R-C23-fresh", where, "the varargs tuple is created by the call")
                else:
                    rep.unknown("R-C23-fresh", where, f"`{v.id}` has bindings this rule does not model")
            elif isinstance(v, ast.Subscript) and isinstance(v.value, ast.Name) and v.value.id == vararg and not isinstance(v.slice, ast.Slice):
                rep.refuted("R-C23-fresh", MOD, "CompilePipeline.__init__", st,
                            "the constructor stores the caller's list object itself: the new pipeline shares it with its source")
            else:
                rep.unknown("R-C23-fresh", where, "stored value form not modelled")
    rep.floor("stores to _compile_pipeline in the constructor", n_store, 2)
    from .c23_extra import extra, routing_args, slices

    extra(ctx, rep)
    slices(ctx, rep)
    routing_args(ctx, rep)
    return rep
