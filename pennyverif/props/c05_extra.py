"""R-C05-strhash — the design had left "collisions through str(...) truncation of large arrays" undecided; it is
decidable as a taint rule and it refutes on the snapshot (reproduced: two 64x64 Hermitian observables that differ in an
elided entry hash equal and qp.execute(cache=True) returns the first circuit's expectation value for both).

`str()` / `repr()` of a numpy-like array with more than 1000 elements elides the middle ("..."), so a hash built
from such a string cannot distinguish large arrays.  Rule: on the hashing path of operators, operator *data* (the
dynamic, array-valued arguments) never reaches `str()`/`repr()`/an f-string directly; it must go through a helper
that is total on large arrays (bytes digest, tuple of entries, or a helper whose own body guards on the size).
"""

from __future__ import annotations

import ast

from ..astutil import call_name
from ..cfg import walk_shallow
from ..core import AnalysisError, norm
from ..index import FuncInfo

SITES = (
    ("pennylane/core/operator/base.py", "_process_data", "op.data elements"),
    ("pennylane/core/operator/operator2.py", "_canonicalize_dynamic", "parameter d"),
)
ROUNDERS = {"_mod_and_round", "round", "real"}


def _data_names(f: FuncInfo):
    """names bound to operator data inside f: loop/comprehension variables over `<x>.data`, the first parameter of
    _canonicalize_dynamic, and locals assigned from rounding helpers applied to those"""
    names = set()
    params = [a.arg for a in f.node.args.args]
    if f.name == "_canonicalize_dynamic" and params:
        names.add(params[0])
    for n in ast.walk(f.node):
        if isinstance(n, ast.comprehension) and isinstance(n.iter, ast.Attribute) and n.iter.attr in ("data", "parameters") and isinstance(n.target, ast.Name):
            names.add(n.target.id)
        if isinstance(n, ast.For) and isinstance(n.iter, ast.Attribute) and n.iter.attr in ("data", "parameters") and isinstance(n.target, ast.Name):
            names.add(n.target.id)
    changed = True
    while changed:
        changed = False
        for n in ast.walk(f.node):
            if isinstance(n, ast.Assign) and isinstance(n.targets[0], ast.Name) and n.targets[0].id not in names:
                if {x.id for x in ast.walk(n.value) if isinstance(x, ast.Name)} & names:
                    names.add(n.targets[0].id)
                    changed = True
    return names


def _is_data_expr(e, names):
    """does expression e evaluate to (a container of) operator data arrays?"""
    if isinstance(e, ast.Name):
        return e.id in names
    if isinstance(e, ast.Call):
        cn = (call_name(e) or "").split(".")[-1]
        if cn == "id":
            return False
        if cn in ROUNDERS and e.args:
            return _is_data_expr(e.args[0], names)
        return False
    if isinstance(e, ast.IfExp):
        return _is_data_expr(e.body, names) or _is_data_expr(e.orelse, names)
    if isinstance(e, (ast.List, ast.Tuple)):
        return any(_is_data_expr(x, names) for x in e.elts)
    if isinstance(e, (ast.ListComp, ast.GeneratorExp)):
        return _is_data_expr(e.elt, names)
    return False


def extra(ctx, rep):
    ix = ctx.index
    rep.rule("R-C05-strhash", "on the hashing path of operators, array-valued operator data never reaches str()/repr()/an f-string directly "
             "(numpy-like arrays with more than 1000 elements are printed with an elided middle, so different large arrays would hash equal and "
             "share a cache entry); it must go through a helper that is total on large arrays")
    n = 0
    for rel, qual, what in SITES:
        f = ix.func(rel, qual)
        rep.analysed(rel, qual)
        names = _data_names(f)
        if not names:
            raise AnalysisError(f"{rel}:{qual}: operator data not found ({what})")
        hits = []
        for c in ast.walk(f.node):
            if isinstance(c, ast.Call) and call_name(c) in ("str", "repr") and c.args and _is_data_expr(c.args[0], names):
                hits.append(c)
            if isinstance(c, ast.FormattedValue) and _is_data_expr(c.value, names):
                hits.append(c)
        n += 1
        if hits:
            for h in hits:
                rep.refuted("R-C05-strhash", rel, qual, h,
                            f"operator data is turned into its hash key with `{norm(h)[:70]}`: str() of an array with more than 1000 elements elides "
                            "its middle entries, so two operators whose large data arrays differ only there hash equal and execution with a cache "
                            "returns the result of the wrong circuit", line=getattr(h, "lineno", f.node.lineno))
        else:
            rep.proved("R-C05-strhash", f"{rel}:{qual}", "operator data does not reach str()/repr() directly")
    rep.floor("data-to-hash-key conversion sites", n, 2)
    # hyperparameters of Operator.__hash__: str(self.hyperparameters.values()) — values are usually short static objects; arrays among
    # them would be elided the same way.  Not refuted (no hyperparameter is known to be a large array on the execution path).
    base = ix.cls("pennylane/core/operator/base.py", "Operator")
    h = base.own_method("__hash__")
    if h is not None and any(isinstance(c, ast.Call) and call_name(c) == "str" and "hyperparameters" in norm(c) for c in ast.walk(h.node)):
        rep.unknown("R-C05-strhash", "pennylane/core/operator/base.py:Operator.__hash__ str(self.hyperparameters.values())",
                    "hyperparameters are stringified as a whole; an array-valued hyperparameter with more than 1000 elements would be elided too")


# ------------------------------------------------------------------------------------------------------------------
UNORDERED = {"frozenset", "set", "sorted"}
WIRE_ATTRS = {"wires", "raw_wires", "_wires", "control_wires", "target_wires"}


def order_and_stale(ctx, rep):
    """R-C05-order: wires enter measurement / operator hashes in their own order.  probs(wires=[0, 1]) and probs(wires=[1, 0])
    (likewise sample, counts, state-like reductions, mutual_info) return differently arranged results, so a hash that
    forgets the order makes the two share one cache entry.
    R-C05-stale: a memoised `hash` of a QuantumScript reaches a copy only when nothing that enters the fingerprint is replaced."""
    ix = ctx.index
    rep.rule("R-C05-order", "in every __hash__ of a MeasurementProcess / Operator class the wires reach the fingerprint order-preserving: "
             "never through set(), frozenset() or sorted() (results of probs/sample/counts/density_matrix/mutual_info are arranged by wire order)")
    n = 0
    for c in ix.classes:
        rel = c.module.relpath
        if not rel.startswith("pennylane/") or "/tests/" in rel or "/labs/" in rel:
            continue
        h = c.own_method("__hash__")
        if h is None:
            continue
        names = {b.name for b in c.mro()}
        if not names & {"MeasurementProcess", "Operator", "Operator2"}:
            continue
        reads_wires = [x for x in ast.walk(h.node) if isinstance(x, ast.Attribute) and x.attr in WIRE_ATTRS]
        if not reads_wires:
            continue
        n += 1
        rep.analysed(rel, h.qualname)
        bad = None
        for call in ast.walk(h.node):
            if isinstance(call, ast.Call) and call_name(call) in UNORDERED and call.args:
                if any(isinstance(x, ast.Attribute) and x.attr in WIRE_ATTRS for x in ast.walk(call.args[0])):
                    bad = call
        # a measurement class that indexes its stored wires as a partition (`self.raw_wires[0]`, `self._wires[1]` in its other methods:
        # mutual_info's two subsystems) must hash the partition: the merged `wires` is the same for (wires0=[0], wires1=[1, 2]) and
        # (wires0=[0, 1], wires1=[2])
        if bad is None:
            partition = any(isinstance(x, ast.Subscript) and isinstance(x.value, ast.Attribute) and x.value.attr in ("raw_wires", "_wires")
                            and isinstance(x.value.value, ast.Name) and x.value.value.id == "self" and isinstance(x.slice, ast.Constant)
                            for nm_, fl_ in c.methods.items() if nm_ != "__hash__" for g_ in fl_ for x in ast.walk(g_.node))
            reads_raw = any(isinstance(x, ast.Attribute) and x.attr in ("raw_wires", "_wires") for x in ast.walk(h.node))
            if partition and not reads_raw:
                merged = next((x for x in ast.walk(h.node) if isinstance(x, ast.Attribute) and x.attr == "wires"), None)
                if merged is not None:
                    rep.refuted("R-C05-order", rel, h.qualname, merged,
                                f"{c.name} keeps its wires as a partition into subsystems (it indexes `raw_wires[i]` elsewhere) but hashes only the merged "
                                "`wires`: measurements that split the same wires differently (wires0=[0], wires1=[1, 2] / wires0=[0, 1], wires1=[2]) share "
                                "a tape hash and the cached value of one is returned for the other", line=merged.lineno)
                    continue
        if bad is not None:
            rep.refuted("R-C05-order", rel, h.qualname, bad,
                        f"`{norm(bad)[:70]}` drops the order of the wires from the hash: measurements that differ only in wire order "
                        "(probs(wires=[0, 1]) / probs(wires=[1, 0])) get the same tape hash, and the cached result of one is returned for the other",
                        line=bad.lineno)
        else:
            rep.proved("R-C05-order", f"{rel}:{h.qualname}", "wires enter the fingerprint in their own order")
    rep.floor("__hash__ implementations reading wires", n, 4)

    rep.rule("R-C05-multiset", "an operator __hash__ that forgets the order of its operands (Sum: addition commutes) still keeps their multiplicities: "
             "set()/frozenset() is applied to Counter(operands).items() (or to sorted/grouped pairs), never to the operands themselves — "
             "X+X+Z and X+Z+Z are different operators")
    n_ms = 0
    for c in ix.classes:
        rel = c.module.relpath
        if not rel.startswith("pennylane/") or "/tests/" in rel or "/labs/" in rel:
            continue
        h = c.own_method("__hash__")
        if h is None or not {b.name for b in c.mro()} & {"Operator", "Operator2"}:
            continue
        for call in [x for x in ast.walk(h.node) if isinstance(x, ast.Call) and call_name(x) in ("frozenset", "set") and x.args]:
            arg = call.args[0]
            names = {x.attr for x in ast.walk(arg) if isinstance(x, ast.Attribute)} | {x.id for x in ast.walk(arg) if isinstance(x, ast.Name)}
            if not names & {"operands", "ops", "_ops", "summands", "factors"}:
                continue
            n_ms += 1
            rep.analysed(rel, h.qualname)
            counted = any(isinstance(x, ast.Call) and (call_name(x) or "").split(".")[-1] == "Counter" for x in ast.walk(arg))
            if counted:
                rep.proved("R-C05-multiset", f"{rel}:{h.qualname}", "unordered hash over (operand, multiplicity) pairs")
            elif isinstance(arg, (ast.Attribute, ast.Name)) or (isinstance(arg, ast.Call) and call_name(arg) in ("tuple", "list")):
                rep.refuted("R-C05-multiset", rel, h.qualname, call,
                            f"`{norm(call)[:60]}` hashes the set of operands: repeated terms collapse, so X0+X0+Z1, X0+Z1+Z1 and X0+Z1 share a hash "
                            "(un-simplified sums and Hamiltonians with a repeated term collide in the execution cache)", line=call.lineno)
            else:
                rep.unknown("R-C05-multiset", f"{rel}:{h.qualname}", f"`{norm(call)[:60]}` not classified")
    rep.floor("operator hashes that forget operand order", n_ms, 1)

    rep.rule("R-C05-stale", "QuantumScript.copy(**update) carries a memoised `hash` to the new script only under a guard that excludes an update of "
             "every constructor input the fingerprint reads (operations, measurements, shots, trainable_params); "
             "`not update.get(key)` is not such a guard (an update to an empty value passes it)")
    from .c40_extra import cache_part

    k = cache_part(ix, rep, rule="R-C05-stale", slots={"hash"}, floor=0)
    if not k:
        rep.proved("R-C05-stale", "pennylane/core/qscript.py:QuantumScript.copy", "the memoised hash is never carried to a copy: every copy recomputes it",
                   nontrivial=False)


# ------------------------------------------------------------------------------------------------------------------
def memo_hash(ctx, rep):
    """R-C05-memo: an operator class that memoises its hash in an instance attribute must not hand that attribute to a sibling
    whose content differs.  Methods that clone `vars(self)` (or copy.copy(self)) and then change wires / operands / data must
    leave the memo out of the clone or reset it; otherwise the new operator hashes like the old one, two different circuits
    share a tape hash, and cached execution returns the result of the wrong circuit."""
    ix = ctx.index
    rep.rule("R-C05-memo", "for every Operator class whose __hash__ memoises in `self.<A>` (test `self.<A> is None`, store `self.<A> = hash(...)`): "
             "every method of the class or a subclass, other than __copy__/__deepcopy__, that builds a new instance from `vars(self)` or copy(self) "
             "and assigns other attributes of it excludes <A> from the cloned attributes or resets `new.<A> = None`")
    n_cls = n_meth = 0
    for c in ix.classes:
        rel = c.module.relpath
        if not rel.startswith("pennylane/") or "/tests/" in rel:
            continue
        if not {b.name for b in c.mro()} & {"Operator", "Operator2"}:
            continue
        h = c.own_method("__hash__")
        if h is None:
            continue
        memo = None
        for n in ast.walk(h.node):
            if isinstance(n, ast.Assign) and len(n.targets) == 1 and isinstance(n.targets[0], ast.Attribute) and isinstance(n.targets[0].value, ast.Name) \
                    and n.targets[0].value.id == "self" and isinstance(n.value, ast.Call) and call_name(n.value) == "hash":
                memo = n.targets[0].attr
        if memo is None:
            continue
        n_cls += 1
        rep.analysed(rel, h.qualname)
        subs = [k for k in ix.classes if c in k.mro()]
        for k in subs:
            for name, fl in k.methods.items():
                if name in ("__copy__", "__deepcopy__", "__init__", "__hash__"):
                    continue
                for f in fl:
                    clones = []  # (new name, node, excluded attrs or None when everything is cloned)
                    for n in walk_shallow(f.node):
                        if isinstance(n, ast.For) and "vars(self)" in norm(n.iter):
                            excl = set()
                            for t in ast.walk(n):
                                if isinstance(t, ast.Compare) and len(t.ops) == 1 and isinstance(t.ops[0], ast.NotIn) and isinstance(t.comparators[0], (ast.Set, ast.Tuple, ast.List)):
                                    excl |= {e.value for e in t.comparators[0].elts if isinstance(e, ast.Constant)}
                            tgt = None
                            for s_ in ast.walk(n):
                                if isinstance(s_, ast.Call) and call_name(s_) == "setattr" and s_.args and isinstance(s_.args[0], ast.Name):
                                    tgt = s_.args[0].id
                            if tgt:
                                clones.append((tgt, n, excl))
                        if isinstance(n, ast.Assign) and len(n.targets) == 1 and isinstance(n.targets[0], ast.Name) and isinstance(n.value, ast.Call):
                            cn = call_name(n.value) or ""
                            if cn.split(".")[-1] == "copy" and n.value.args and norm(n.value.args[0]) == "self" or norm(n.value) == "self.__copy__()":
                                clones.append((n.targets[0].id, n, set()))
                    for new, node, excl in clones:
                        n_meth += 1
                        rep.analysed(k.module.relpath, f.qualname)
                        writes = [s_ for s_ in walk_shallow(f.node) if isinstance(s_, ast.Assign) and any(
                            isinstance(t, ast.Attribute) and isinstance(t.value, ast.Name) and t.value.id == new for t in s_.targets)]
                        resets = [s_ for s_ in writes if any(isinstance(t, ast.Attribute) and t.attr == memo for t in s_.targets)
                                  and isinstance(s_.value, ast.Constant) and s_.value.value is None]
                        content = [s_ for s_ in writes if not any(isinstance(t, ast.Attribute) and t.attr == memo for t in s_.targets)]
                        where = f"{k.module.relpath}:{f.qualname}"
                        if not content:
                            rep.proved("R-C05-memo", where, "clone with unchanged content", nontrivial=False)
                        elif memo in excl or resets:
                            rep.proved("R-C05-memo", where, f"`{memo}` is left out of the clone / reset before the changed operator is returned")
                        else:
                            rep.refuted("R-C05-memo", k.module.relpath, f.qualname, node,
                                        f"the new operator receives every attribute of `self` including the memoised `{memo}` and is then given different "
                                        f"content (`{norm(content[0])[:60]}`): once the original has been hashed, the new operator reports the same hash, "
                                        "so two circuits that differ only in this operator share a tape hash and cached execution returns the result "
                                        "of the other circuit", line=node.lineno)
    rep.floor("operator classes memoising their hash", n_cls, 1)
    rep.floor("cloning methods of hash-memoising operator classes", n_meth, 1)
