"""R-C05-strhash — the design had left "collisions through str(...) truncation of large arrays" undecided; it is
decidable as a taint rule and it refutes on the snapshot (reproduced: two 64x64 Hermitian observables that differ in an
elided entry hash equal and qp.execute(cache=True) returns the first circuit's expectation value for both).

`str()` / `repr()` of a numpy-like array with more than 1000 elements elides the middle ("..."), so a hash built
from such a string cannot distinguish large arrays.  Rule: on the hashing path of operators, operator *data* (the
dynamic, array-valued arguments) never reaches `str()`/`repr()`/an f-string directly; it must go through a helper
that is total on large arrays (bytes digest, tuple of entries, or a helper whose own body guards on the size).
"""

from __future__ import annotations

import ast

from ..astutil import call_name
from ..cfg import walk_shallow
from ..core import AnalysisError, norm
from ..index import FuncInfo

SITES = (
    ("pennylane/core/operator/base.py", "_process_data", "op.data elements"),
    ("pennylane/core/operator/operator2.py", "_canonicalize_dynamic", "parameter d"),
)
ROUNDERS = {"_mod_and_round", "round", "real"}


def _data_names(f: FuncInfo):
    """names bound to operator data inside f: loop/comprehension variables over `<x>.data`, the first parameter of
    _canonicalize_dynamic, and locals assigned from rounding helpers applied to those"""
    names = set()
    params = [a.arg for a in f.node.args.args]
    if f.name == "_canonicalize_dynamic" and params:
        names.add(params[0])
    for n in ast.walk(f.node):
        if isinstance(n, ast.comprehension) and isinstance(n.iter, ast.Attribute) and n.iter.attr in ("data", "parameters") and isinstance(n.target, ast.Name):
            names.add(n.target.id)
        if isinstance(n, ast.For) and isinstance(n.iter, ast.Attribute) and n.iter.attr in ("data", "parameters") and isinstance(n.target, ast.Name):
            names.add(n.target.id)
    changed = True
    while changed:
        changed = False
        for n in ast.walk(f.node):
            if isinstance(n, ast.Assign) and isinstance(n.targets[0], ast.Name) and n.targets[0].id not in names:
                if {x.id for x in ast.walk(n.value) if isinstance(x, ast.Name)} & names:
                    names.add(n.targets[0].id)
                    changed = True
    return names


def _is_data_expr(e, names):
    """does expression e evaluate to (a container of) operator data arrays?"""
    if isinstance(e, ast.Name):
        return e.id in names
    if isinstance(e, ast.Call):
        cn = (call_name(e) or "").split(".")[-1]
        if cn == "id":
            return False
        if cn in ROUNDERS and e.args:
            return _is_data_expr(e.args[0], names)
        return False
    if isinstance(e, ast.IfExp):
        return _is_data_expr(e.body, names) or _is_data_expr(e.orelse, names)
    if isinstance(e, (ast.List, ast.Tuple)):
        return any(_is_data_expr(x, names) for x in e.elts)
    if isinstance(e, (ast.ListComp, ast.GeneratorExp)):
        return _is_data_expr(e.elt, names)
    return False


def extra(ctx, rep):
    ix = ctx.index
    rep.rule("R-C05-strhash", "on the hashing path of operators, array-valued operator data never reaches str()/repr()/an f-string directly "
             "(numpy-like arrays with more than 1000 elements are printed with an elided middle, so different large arrays would hash equal and "
             "share a cache entry); it must go through a helper that is total on large arrays")
    n = 0
    for rel, qual, what in SITES:
        f = ix.func(rel, qual)
        rep.analysed(rel, qual)
        names = _data_names(f)
        if not names:
            raise AnalysisError(f"{rel}:{qual}: operator data not found ({what})")
        hits = []
        for c in ast.walk(f.node):
            if isinstance(c, ast.Call) and call_name(c) in ("str", "repr") and c.args and _is_data_expr(c.args[0], names):
                hits.append(c)
            if isinstance(c, ast.FormattedValue) and _is_data_expr(c.value, names):
                hits.append(c)
        n += 1
        if hits:
            for h in hits:
                rep.refuted("R-C05-strhash", rel, qual, h,
                            f"operator data is turned into its hash key with `{norm(h)[:70]}`: str() of an array with more than 1000 elements elides "
                            "its middle entries, so two operators whose large data arrays differ only there hash equal and execution with a cache "
                            "returns the result of the wrong circuit", line=getattr(h, "lineno", f.node.lineno))
        else:
            rep.proved("R-C05-strhash", f"{rel}:{qual}", "operator data does not reach str()/repr() directly")
    rep.floor("data-to-hash-key conversion sites", n, 2)
    # hyperparameters of Operator.__hash__: str(self.hyperparameters.values()) — values are usually short static objects; arrays among
    # them would be elided the same way.  Not refuted (no hyperparameter is known to be a large array on the execution path).
    base = ix.cls("pennylane/core/operator/base.py", "Operator")
    h = base.own_method("__hash__")
    if h is not None and any(isinstance(c, ast.Call) and call_name(c) == "str" and "hyperparameters" in norm(c) for c in ast.walk(h.node)):
        rep.unknown("R-C05-strhash", "pennylane/core/operator/base.py:Operator.__hash__ str(self.hyperparameters.values())",
                    "hyperparameters are stringified as a whole; an array-valued hyperparameter with more than 1000 elements would be elided too")
