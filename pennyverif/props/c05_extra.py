"""R-C05-strhash — the design had left "collisions through str(...) truncation of large arrays" undecided; it is
decidable as a taint rule and it refutes on the snapshot (reproduced: two 64x64 Hermitian observables that differ in an
elided entry hash equal and qp.execute(cache=True) returns the first circuit's expectation value for both).

`str()` / `repr()` of a numpy-like array with more than 1000 elements elides the middle ("..."), so a hash built
from such a string cannot distinguish large arrays.  Rule: on the hashing path of operators, operator *data* (the
dynamic, array-valued arguments) never reaches `str()`/`repr()`/an f-string directly; it must go through a helper
that is total on large arrays (bytes digest, tuple of entries, or a helper whose own body guards on the size).
"""

from __future__ import annotations

import ast

from ..astutil import call_name
from ..cfg import walk_shallow
from ..core import AnalysisError, norm
from ..index import FuncInfo

SITES = (
    ("pennylane/core/operator/base.py", "_process_data", "op.data elements"),
    ("pennylane/core/operator/operator2.py", "_canonicalize_dynamic", "parameter d"),
)
ROUNDERS = {"_mod_and_round", "round", "real"}


def _data_names(f: FuncInfo):
    """names bound to operator data inside f: loop/comprehension variables over `<x>.data`, the first parameter of
    _canonicalize_dynamic, and locals assigned from rounding helpers applied to those"""
    names = set()
    params = [a.arg for a in f.node.args.args]
    if f.name == "_canonicalize_dynamic" and params:
        names.add(params[0])
    for n in ast.walk(f.node):
        if isinstance(n, ast.comprehension) and isinstance(n.iter, ast.Attribute) and n.iter.attr in ("data", "parameters") and isinstance(n.target, ast.Name):
            names.add(n.target.id)
        if isinstance(n, ast.For) and isinstance(n.iter, ast.Attribute) and n.iter.attr in ("data", "parameters") and isinstance(n.target, ast.Name):
            names.add(n.target.id)
    changed = True
    while changed:
        changed = False
        for n in ast.walk(f.node):
            if isinstance(n, ast.Assign) and isinstance(n.targets[0], ast.Name) and n.targets[0].id not in names:
                if {x.id for x in ast.walk(n.value) if isinstance(x, ast.Name)} & names:
                    names.add(n.targets[0].id)
                    changed = True
    return names


def _is_data_expr(e, names):
    """does expression e evaluate to (a container of) operator data arrays?"""
    if isinstance(e, ast.Name):
        return e.id in names
    if isinstance(e, ast.Call):
        cn = (call_name(e) or "").split(".")[-1]
        if cn == "id":
            return False
        if cn in ROUNDERS and e.args:
            return _is_data_expr(e.args[0], names)
        return False
    if isinstance(e, ast.IfExp):
        return _is_data_expr(e.body, names) or _is_data_expr(e.orelse, names)
    if isinstance(e, (ast.List, ast.Tuple)):
        return any(_is_data_expr(x, names) for x in e.elts)
    if isinstance(e, (ast.ListComp, ast.GeneratorExp)):
        return _is_data_expr(e.elt, names)
    return False


def extra(ctx, rep):
    ix = ctx.index
    rep.rule("R-C05-strhash", "on the hashing path of operators, array-valued operator data never reaches str()/repr()/an f-string directly "
             "(numpy-like arrays with more than 1000 elements are printed with an elided middle, so different large arrays would hash equal and "
             "share a cache entry); it must go through a helper that is total on large arrays")
    n = 0
    for rel, qual, what in SITES:
        f = ix.func(rel, qual)
        rep.analysed(rel, qual)
        names = _data_names(f)
        if not names:
            raise AnalysisError(f"{rel}:{qual}: operator data not found ({what})")
        hits = []
        for c in ast.walk(f.node):
            if isinstance(c, ast.Call) and call_name(c) in ("str", "repr") and c.args and _is_data_expr(c.args[0], names):
                hits.append(c)
            if isinstance(c, ast.FormattedValue) and _is_data_expr(c.value, names):
                hits.append(c)
        n += 1
        if hits:
            for h in hits:
                rep.refuted("R-C05-strhash", rel, qual, h,
                            f"operator data is turned into its hash key with `{norm(h)[:70]}`: str() of an array with more than 1000 elements elides "
                            "its middle entries, so two operators whose large data arrays differ only there hash equal and execution with a cache "
                            "returns the result of the wrong circuit", line=getattr(h, "lineno", f.node.lineno))
        else:
            rep.proved("R-C05-strhash", f"{rel}:{qual}", "operator data does not reach str()/repr() directly")
    rep.floor("data-to-hash-key conversion sites", n, 2)
    # hyperparameters of Operator.__hash__: str(self.hyperparameters.values()) — values are usually short static objects; arrays among
    # them would be elided the same way.  Not refuted (no hyperparameter is known to be a large array on the execution path).
    base = ix.cls("pennylane/core/operator/base.py", "Operator")
    h = base.own_method("__hash__")
    if h is not None and any(isinstance(c, ast.Call) and call_name(c) == "str" and "hyperparameters" in norm(c) for c in ast.walk(h.node)):
        rep.unknown("R-C05-strhash", "pennylane/core/operator/base.py:Operator.__hash__ str(self.hyperparameters.values())",
                    "hyperparameters are stringified as a whole; an array-valued hyperparameter with more than 1000 elements would be elided too")


# ------------------------------------------------------------------------------------------------------------------
UNORDERED = {"frozenset", "set", "sorted"}
WIRE_ATTRS = {"wires", "raw_wires", "_wires", "control_wires", "target_wires"}


def order_and_stale(ctx, rep):
    """R-C05-order: wires enter measurement / operator hashes in their own order.  probs(wires=[0, 1]) and probs(wires=[1, 0])
    (likewise sample, counts, state-like reductions, mutual_info) return differently arranged results, so a hash that
    forgets the order makes the two share one cache entry.
    R-C05-stale: a memoised `hash` of a QuantumScript reaches a copy only when nothing that enters the fingerprint is replaced."""
    ix = ctx.index
    rep.rule("R-C05-order", "in every __hash__ of a MeasurementProcess / Operator class the wires reach the fingerprint order-preserving: "
             "never through set(), frozenset() or sorted() (results of probs/sample/counts/density_matrix/mutual_info are arranged by wire order)")
    n = 0
    for c in ix.classes:
        rel = c.module.relpath
        if not rel.startswith("pennylane/") or "/tests/" in rel or "/labs/" in rel:
            continue
        h = c.own_method("__hash__")
        if h is None:
            continue
        names = {b.name for b in c.mro()}
        if not names & {"MeasurementProcess", "Operator", "Operator2"}:
            continue
        reads_wires = [x for x in ast.walk(h.node) if isinstance(x, ast.Attribute) and x.attr in WIRE_ATTRS]
        if not reads_wires:
            continue
        n += 1
        rep.analysed(rel, h.qualname)
        bad = None
        for call in ast.walk(h.node):
            if isinstance(call, ast.Call) and call_name(call) in UNORDERED and call.args:
                if any(isinstance(x, ast.Attribute) and x.attr in WIRE_ATTRS for x in ast.walk(call.args[0])):
                    bad = call
        if bad is not None:
            rep.refuted("R-C05-order", rel, h.qualname, bad,
                        f"`{norm(bad)[:70]}` drops the order of the wires from the hash: measurements that differ only in wire order "
                        "(probs(wires=[0, 1]) / probs(wires=[1, 0])) get the same tape hash, and the cached result of one is returned for the other",
                        line=bad.lineno)
        else:
            rep.proved("R-C05-order", f"{rel}:{h.qualname}", "wires enter the fingerprint in their own order")
    rep.floor("__hash__ implementations reading wires", n, 4)

    rep.rule("R-C05-stale", "QuantumScript.copy(**update) carries a memoised `hash` to the new script only under a guard that excludes an update of "
             "every constructor input the fingerprint reads (operations, measurements, shots, trainable_params); "
             "`not update.get(key)` is not such a guard (an update to an empty value passes it)")
    from .c40_extra import cache_part

    k = cache_part(ix, rep, rule="R-C05-stale", slots={"hash"}, floor=0)
    if not k:
        rep.proved("R-C05-stale", "pennylane/core/qscript.py:QuantumScript.copy", "the memoised hash is never carried to a copy: every copy recomputes it",
                   nontrivial=False)
