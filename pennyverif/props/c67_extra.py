"""R-C67-pure — added after an independent seeded change was missed by the table rules: the exporter
must not modify the circuit it is given (a second export of the same QuantumScript must denote the
same unitary).  Engine E2 (alias/effect analysis) rooted at the tape parameter of the serialiser."""

from __future__ import annotations

from ..effects import TAPE_SPEC, Engine, T

MOD = "pennylane/io/to_openqasm.py"


def extra(ctx, rep):
    ix = ctx.index
    rep.rule("R-C67-pure", "no statement reachable from _tape_openqasm writes through its input tape, the lists it hands out by "
             "reference (operations/measurements) or the operators it owns (E2 effect analysis)")
    eng = Engine(ix, TAPE_SPEC, max_depth=6 if ctx.thorough else 3)
    n = 0
    for name in ("_tape_openqasm",):
        f = ix.func(MOD, name)
        rep.analysed(MOD, name)
        n += 1
        res = eng.analyse(f, {f.node.args.args[0].arg: {T}})
        if not res.sinks:
            rep.proved("R-C67-pure", f"{MOD}:{name}", "no write reaches the input tape")
        for s in res.sinks:
            rep.refuted("R-C67-pure", MOD, name, s.node,
                        f"the OpenQASM serialiser {s.why}: exporting a circuit changes it, so a second export of the same QuantumScript "
                        "denotes a different program", line=s.line)
    rep.floor("serialiser entry points analysed for purity", n, 1)
