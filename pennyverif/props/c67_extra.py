"""R-C67-pure — added after an independent seeded change was missed by the table rules: the exporter
must not modify the circuit it is given (a second export of the same QuantumScript must denote the
same unitary).  Engine E2 (alias/effect analysis) rooted at the tape parameter of the serialiser."""

from __future__ import annotations

from ..effects import TAPE_SPEC, Engine, T

MOD = "pennylane/io/to_openqasm.py"


def extra(ctx, rep):
    ix = ctx.index
    rep.rule("R-C67-pure", "no statement reachable from _tape_openqasm writes through its input tape, the lists it hands out by "
             "reference (operations/measurements) or the operators it owns (E2 effect analysis)")
    eng = Engine(ix, TAPE_SPEC, max_depth=6 if ctx.thorough else 3)
    n = 0
    for name in ("_tape_openqasm",):
        f = ix.func(MOD, name)
        rep.analysed(MOD, name)
        n += 1
        res = eng.analyse(f, {f.node.args.args[0].arg: {T}})
        if not res.sinks:
            rep.proved("R-C67-pure", f"{MOD}:{name}", "no write reaches the input tape")
        for s in res.sinks:
            rep.refuted("R-C67-pure", MOD, name, s.node,
                        f"the OpenQASM serialiser {s.why}: exporting a circuit changes it, so a second export of the same QuantumScript "
                        "denotes a different program", line=s.line)
    rep.floor("serialiser entry points analysed for purity", n, 1)


def shadow(ctx, rep):
    """R-C67-shadow: identifiers declared by the imported program are looked up before the interpreter's built-in constants."""
    import ast

    from ..cfg import CFG
    from ..core import norm

    ix = ctx.index
    rel = "pennylane/io/qasm_interpreter.py"
    rep.rule("R-C67-shadow", "in Context.retrieve_variable the built-in constant table is consulted only after every namespace the program itself fills "
             "(`name in self.<namespace>` tests): a program that declares a variable, loop index or gate parameter called `e`, `pi`, `tau` … must read "
             "its own value, not the constant")
    f = ix.func(rel, "Context.retrieve_variable")
    rep.analysed(rel, f.qualname)
    pname = f.node.args.args[1].arg
    cfg = CFG(f.node, may_raise=lambda n: False)
    tests = [n for n in cfg.stmts("test") if isinstance(n.stmt, ast.If)]

    def kind(t):
        e = t.stmt.test
        if isinstance(e, ast.Compare) and len(e.ops) == 1 and isinstance(e.ops[0], ast.In) and isinstance(e.left, ast.Name) and e.left.id == pname:
            c = e.comparators[0]
            if isinstance(c, ast.Attribute) and isinstance(c.value, ast.Name) and c.value.id == "self":
                return "own", c.attr
            if isinstance(c, ast.Name) and c.id.isupper():
                return "builtin", c.id
        return None, None
    own = [(t, kind(t)[1]) for t in tests if kind(t)[0] == "own"]
    builtin = [(t, kind(t)[1]) for t in tests if kind(t)[0] == "builtin"]
    if not own or not builtin:
        rep.unknown("R-C67-shadow", f"{rel}:Context.retrieve_variable", "lookup chain not recognised")
        return
    dom = cfg.dominators()
    for bt, bname in builtin:
        late = [a for t, a in own if t.id not in dom.get(bt.id, set())]
        if late:
            rep.refuted("R-C67-shadow", rel, "Context.retrieve_variable", f"{pname} in {bname} before {pname} in self.{late[0]}",
                        f"the constant table {bname} is consulted before the program's own `{late[0]}`: an imported program that declares an identifier "
                        "with the name of a built-in constant (e, pi, tau, euler …) silently computes with the constant instead of its own value",
                        line=bt.stmt.lineno)
        else:
            rep.proved("R-C67-shadow", f"{rel}:Context.retrieve_variable {bname}", f"looked up after {[a for _, a in own]}")
    rep.floor("program namespaces consulted by retrieve_variable", len(own), 3)
