"""R-C41-process — the queue-to-circuit step keeps program order and drops nothing: process_queue iterates the
queue's own item order (no sorted / reversed / set), and every iteration appends the queued object to exactly
one of the returned lists or raises."""

from __future__ import annotations

import ast

from ..astutil import method_call
from ..cfg import CFG, walk_shallow
from ..core import AnalysisError, norm

QS = "pennylane/core/qscript.py"


def extra(ctx, rep):
    ix = ctx.index
    rep.rule("R-C41-process", "process_queue iterates `queue.items()` in its own order and, on every path through one iteration, appends the "
             "queued object itself to exactly one of the two returned lists (or raises): nothing recorded is dropped, duplicated or re-ordered")
    f = ix.func(QS, "process_queue")
    rep.analysed(QS, "process_queue")
    loops = [n for n in walk_shallow(f.node) if isinstance(n, ast.For)]
    if len(loops) != 1:
        raise AnalysisError("process_queue: main loop not found")
    lp = loops[0]
    it = norm(lp.iter)
    if any(w in it for w in ("sorted(", "reversed(", "set(", "frozenset(")) or not it.endswith(".items()"):
        rep.refuted("R-C41-process", QS, "process_queue", lp,
                    f"the queue is traversed as `{it}`, not in its own insertion order: operations are no longer recorded in program order")
    else:
        rep.proved("R-C41-process", f"{QS}:process_queue iteration", f"`{it}` — insertion order of the queue")
    obj = lp.target.elts[0].id if isinstance(lp.target, ast.Tuple) and isinstance(lp.target.elts[0], ast.Name) else (lp.target.id if isinstance(lp.target, ast.Name) else None)
    rets = [n for n in walk_shallow(f.node) if isinstance(n, ast.Return) and isinstance(n.value, ast.Tuple)]
    out_lists = {e.id for r in rets for e in r.value.elts if isinstance(e, ast.Name)}
    body_fn = ast.FunctionDef(name="_iter", args=f.node.args, body=lp.body, decorator_list=[], lineno=lp.lineno, col_offset=0)
    cfg = CFG(body_fn, may_raise=lambda n: False)

    def is_app(nd):
        if nd.stmt is None or nd.kind != "stmt":
            return False
        for c in walk_shallow(nd.stmt):
            if isinstance(c, ast.Call):
                r = method_call(c)
                if r and r[1] == "append" and isinstance(r[0], ast.Name) and r[0].id in out_lists and c.args:
                    return True
        return False

    skip = cfg.path_avoiding(cfg.entry, cfg.exit, is_app)
    twice = any(any(is_app(cfg.nodes[r]) for r in cfg.reachable(s)) for a in cfg.stmts() if is_app(a) for s, _ in cfg.succ[a.id])
    if skip is not None:
        via = " -> ".join(f"L{x.line}" for x in skip if x.stmt is not None)
        rep.refuted("R-C41-process", QS, "process_queue", skip[-2].stmt if len(skip) > 1 and skip[-2].stmt is not None else lp,
                    f"an iteration can end without appending the queued object to {sorted(out_lists)} and without raising (path {via}): a recorded "
                    "operator or measurement silently disappears from the circuit")
    elif twice:
        rep.refuted("R-C41-process", QS, "process_queue", lp, "a queued object can be appended twice in one iteration")
    else:
        rep.proved("R-C41-process", f"{QS}:process_queue body", f"every iteration appends `{obj}` to exactly one of {sorted(out_lists)} or raises")


# ------------------------------------------------------------------------------------------------------------------
# R-C41-consume — the eager (non-lazy) forms of the arithmetic / wrapper *functions* build their result from parts of
# the operand (operator.base, the flattened factors, base.pow(z)) rather than handing the operand to a wrapper class
# whose own queue() would take it out of the recording; those paths must de-queue the operand themselves.
# Table read off pennylane/ops/op_math (one line each: file, function, operand parameter, one operand or several).
CONSUMERS = [
    ("pennylane/ops/op_math/sprod.py", "s_prod", "operator", "one"),
    ("pennylane/ops/op_math/prod.py", "prod", "ops", "many"),
    ("pennylane/ops/op_math/sum.py", "sum", "summands", "many"),
    ("pennylane/ops/op_math/pow.py", "pow", "base", "one"),
    ("pennylane/ops/op_math/controlled.py", "create_controlled_op", "op", "one"),
    ("pennylane/ops/op_math/controlled.py", "create_controlled_op2", "op", "one"),
]


def _is_remove_call(n, names):
    return (isinstance(n, ast.Call) and isinstance(n.func, ast.Attribute) and n.func.attr == "remove"
            and norm(n.func.value).endswith("QueuingManager") and n.args and isinstance(n.args[0], ast.Name) and n.args[0].id in names)


def consume(ctx, rep):
    ix = ctx.index
    rep.rule("R-C41-consume", "in s_prod / prod / sum / pow / create_controlled_op(2): every path to a return whose value is built from parts of "
             "the operand (not the operand itself, not a wrapper constructor that receives the operand whole, not a deferred function) passes "
             "through QueuingManager.remove(<operand>) (for several operands: a loop over them that removes each)")
    n_ret = 0
    for rel, fname, param, arity in CONSUMERS:
        f = ix.func(rel, fname)
        if f is None:
            raise AnalysisError(f"{rel}:{fname} vanished")
        rep.analysed(rel, fname)
        a = f.node.args
        allp = [x.arg for x in a.posonlyargs + a.args] + ([a.vararg.arg] if a.vararg else [])
        if param not in allp:
            raise AnalysisError(f"{rel}:{fname}: operand parameter `{param}` vanished")
        cfg = CFG(f.node, may_raise=lambda n: False)
        nested = {n.name for n in ast.walk(f.node) if isinstance(n, ast.FunctionDef) and n is not f.node}

        def is_remove(nd, param=param, arity=arity):
            s = nd.stmt
            if s is None:
                return False
            if nd.kind == "stmt":
                for x in ast.walk(s):
                    if _is_remove_call(x, {param}) and arity == "one":
                        return True
                    # [QueuingManager.remove(o) for o in ops]
                    if isinstance(x, (ast.ListComp, ast.GeneratorExp)) and arity == "many" and len(x.generators) == 1 and not x.generators[0].ifs \
                            and isinstance(x.generators[0].iter, ast.Name) and x.generators[0].iter.id == param \
                            and isinstance(x.generators[0].target, ast.Name) and _is_remove_call(x.elt, {x.generators[0].target.id}):
                        return True
            if nd.kind == "for" and arity == "many" and isinstance(s.iter, ast.Name) and s.iter.id == param and isinstance(s.target, ast.Name):
                # for op in ops: QueuingManager.remove(op)   (first level of the body, unconditional)
                return any(isinstance(b, ast.Expr) and _is_remove_call(b.value, {s.target.id}) for b in s.body)
            return False

        def classify(v):
            if v is None:
                return "none"
            if isinstance(v, ast.Name) and v.id == param:
                return "operand"
            if isinstance(v, ast.Subscript) and isinstance(v.value, ast.Name) and v.value.id == param:
                return "operand"
            if isinstance(v, ast.Name) and v.id in nested:
                return "function"
            if isinstance(v, ast.IfExp):
                ks = {classify(v.body), classify(v.orelse)}
                return ks.pop() if len(ks) == 1 else "built"
            if isinstance(v, ast.Call):
                for x in v.args:
                    if isinstance(x, ast.Name) and x.id == param and arity == "one":
                        return "wrapped"
                    if isinstance(x, ast.Starred) and isinstance(x.value, ast.Name) and x.value.id == param and arity == "many":
                        return "wrapped"
                for kw in v.keywords:
                    if isinstance(kw.value, ast.Name) and kw.value.id == param and arity == "one":
                        return "wrapped"
            return "built"

        for rn in [x for x in cfg.stmts("return")]:
            kind = classify(rn.stmt.value)
            where = f"{rel}:{fname} `{norm(rn.stmt)[:70]}`"
            if kind in ("operand", "function", "none"):
                rep.proved("R-C41-consume", where, f"returns the {kind}: nothing is consumed", nontrivial=False)
                continue
            if kind == "wrapped":
                rep.proved("R-C41-consume", where, f"`{param}` is handed whole to the wrapper constructor, whose queue() replaces it (R-C41-own)", nontrivial=False)
                continue
            n_ret += 1
            p = cfg.path_avoiding(cfg.entry, rn.id, is_remove)
            if p is None:
                rep.proved("R-C41-consume", where, f"every path passes QueuingManager.remove(<{param}>)")
            else:
                rep.refuted("R-C41-consume", rel, fname, rn.stmt,
                            f"the returned operator is built from parts of `{param}` and some path to this return never de-queues `{param}`: inside a "
                            f"recording context both the consumed operand and the new operator are recorded", line=rn.stmt.lineno)
    rep.floor("eager-constructor returns that must de-queue their operand", n_ret, 5)
