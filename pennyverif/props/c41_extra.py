"""R-C41-process — the queue-to-circuit step keeps program order and drops nothing: process_queue iterates the
queue's own item order (no sorted / reversed / set), and every iteration appends the queued object to exactly
one of the returned lists or raises."""

from __future__ import annotations

import ast

from ..astutil import method_call
from ..cfg import CFG, walk_shallow
from ..core import AnalysisError, norm

QS = "pennylane/core/qscript.py"


def extra(ctx, rep):
    ix = ctx.index
    rep.rule("R-C41-process", "process_queue iterates `queue.items()` in its own order and, on every path through one iteration, appends the "
             "queued object itself to exactly one of the two returned lists (or raises): nothing recorded is dropped, duplicated or re-ordered")
    f = ix.func(QS, "process_queue")
    rep.analysed(QS, "process_queue")
    loops = [n for n in walk_shallow(f.node) if isinstance(n, ast.For)]
    if len(loops) != 1:
        raise AnalysisError("process_queue: main loop not found")
    lp = loops[0]
    it = norm(lp.iter)
    if any(w in it for w in ("sorted(", "reversed(", "set(", "frozenset(")) or not it.endswith(".items()"):
        rep.refuted("R-C41-process", QS, "process_queue", lp,
                    f"the queue is traversed as `{it}`, not in its own insertion order: operations are no longer recorded in program order")
    else:
        rep.proved("R-C41-process", f"{QS}:process_queue iteration", f"`{it}` — insertion order of the queue")
    obj = lp.target.elts[0].id if isinstance(lp.target, ast.Tuple) and isinstance(lp.target.elts[0], ast.Name) else (lp.target.id if isinstance(lp.target, ast.Name) else None)
    rets = [n for n in walk_shallow(f.node) if isinstance(n, ast.Return) and isinstance(n.value, ast.Tuple)]
    out_lists = {e.id for r in rets for e in r.value.elts if isinstance(e, ast.Name)}
    body_fn = ast.FunctionDef(name="_iter", args=f.node.args, body=lp.body, decorator_list=[], lineno=lp.lineno, col_offset=0)
    cfg = CFG(body_fn, may_raise=lambda n: False)

    def is_app(nd):
        if nd.stmt is None or nd.kind != "stmt":
            return False
        for c in walk_shallow(nd.stmt):
            if isinstance(c, ast.Call):
                r = method_call(c)
                if r and r[1] == "append" and isinstance(r[0], ast.Name) and r[0].id in out_lists and c.args:
                    return True
        return False

    skip = cfg.path_avoiding(cfg.entry, cfg.exit, is_app)
    twice = any(any(is_app(cfg.nodes[r]) for r in cfg.reachable(s)) for a in cfg.stmts() if is_app(a) for s, _ in cfg.succ[a.id])
    if skip is not None:
        via = " -> ".join(f"L{x.line}" for x in skip if x.stmt is not None)
        rep.refuted("R-C41-process", QS, "process_queue", skip[-2].stmt if len(skip) > 1 and skip[-2].stmt is not None else lp,
                    f"an iteration can end without appending the queued object to {sorted(out_lists)} and without raising (path {via}): a recorded "
                    "operator or measurement silently disappears from the circuit")
    elif twice:
        rep.refuted("R-C41-process", QS, "process_queue", lp, "a queued object can be appended twice in one iteration")
    else:
        rep.proved("R-C41-process", f"{QS}:process_queue body", f"every iteration appends `{obj}` to exactly one of {sorted(out_lists)} or raises")
