"""C13 — measurement-based decompositions act deterministically: the def/use core.

An outcome that no correction consults cannot be corrected.

* R-C13-use        every value bound from ``measure()`` / ``pauli_measure()`` in a decomposition rule (inlined helpers
                   included) and in ``ops/functions/iterative_qpe.py`` flows into the predicate of a ``qp.cond(...)`` or
                   is returned.
* R-C13-wirecover  only for the instances confirmed by reading (``_hadamard_ppm``, ``_pauli_ctrl_pauli_ppm``): every
                   wire that is an argument of a mid-circuit measurement also receives a cond-guarded operator.  Any
                   other measuring rule is an evidence note, never a violation.
* R-C13-burn       a rule that measures a wire it allocated must allocate it ``restored=False`` and declare the work-wire
                   kind computed from (state, restored) as in R-C11-work; in the confirmed measurement-based rules the
                   ancilla must be allocated ``state="zero"`` (kind burnable); or measure with ``reset=True``.
"""

from __future__ import annotations

import ast

from ..cfg import walk_shallow
from ..core import AnalysisError, Report, norm
from ..index import FuncInfo, Module
from ..rulescan import get_scanner

NP = "pennylane/ops/qubit/non_parametric_ops.py"
CO = "pennylane/ops/op_math/controlled_ops.py"
IQPE = "pennylane/ops/functions/iterative_qpe.py"
CONFIRMED = ((NP, "_hadamard_ppm"), (CO, "_pauli_ctrl_pauli_ppm"))
FLOOR_DEFS = 8
FLOOR_FUNCS = 5
FLOOR_BURN = 3


def _resolve_callee(sc, module, fn):
    if isinstance(fn, (ast.Name, ast.Attribute)):
        r = sc.ix.resolve_expr(module, fn)
        if isinstance(r, Module):
            r = r.functions.get(r.name.split(".")[-1])
        if isinstance(r, FuncInfo):
            return sc.by_func.get(id(r))
    return None


def _names(e):
    return {n.id for n in ast.walk(e) if isinstance(n, ast.Name)}


class MeasureFlow:
    """flow-insensitive def/use of measurement outcomes inside one function (nested defs included)"""

    def __init__(self, sc, f: FuncInfo):
        self.sc, self.f = sc, f
        m = f.module
        self.parents = {}
        for p in ast.walk(f.node):
            for c in ast.iter_child_nodes(p):
                self.parents[c] = p
        self.defs = []  # (call node, kind, bound name | None, context)
        self.cond_calls = []  # (inner cond call, outer call | None)
        for n in ast.walk(f.node):
            if not isinstance(n, ast.Call):
                continue
            k = _resolve_callee(sc, m, n.func)
            if k in ("measure", "pauli_measure"):
                self.defs.append(self._def(n, k))
            elif k == "cond":
                par = self.parents.get(n)
                outer = par if isinstance(par, ast.Call) and par.func is n else None
                self.cond_calls.append((n, outer))

    def _stmt(self, n):
        cur = n
        while cur in self.parents and not isinstance(cur, ast.stmt):
            cur = self.parents[cur]
        return cur

    def _def(self, call, kind):
        st = self._stmt(call)
        name = None
        ctx = "expr"
        if isinstance(st, ast.Assign) and st.value is call and len(st.targets) == 1 and isinstance(st.targets[0], ast.Name):
            name, ctx = st.targets[0].id, "bound"
        elif isinstance(st, ast.AnnAssign) and st.value is call and isinstance(st.target, ast.Name):
            name, ctx = st.target.id, "bound"
        elif isinstance(st, ast.Expr) and st.value is call:
            ctx = "discarded"
        elif isinstance(st, ast.Return):
            ctx = "returned"
        else:
            # inside a larger expression: consulted when that expression is a cond predicate
            cur = call
            while cur in self.parents and not isinstance(cur, ast.stmt):
                par = self.parents[cur]
                if isinstance(par, ast.Call) and par.args and cur is par.args[0] and _resolve_callee(self.sc, self.f.module, par.func) == "cond":
                    ctx = "cond-pred"
                    break
                cur = par
            if ctx == "expr" and isinstance(st, (ast.Assign, ast.AugAssign, ast.AnnAssign)):
                ctx = "stored"
        reset = any(kw.arg == "reset" and isinstance(kw.value, ast.Constant) and kw.value.value is True for kw in call.keywords)
        return {"call": call, "kind": kind, "name": name, "ctx": ctx, "reset": reset, "stmt": st}

    def tainted(self, d):
        """names through which the outcome ``d`` can flow"""
        if d["name"] is None and d["ctx"] != "stored":
            return set()
        t = set()
        if d["name"]:
            t.add(d["name"])
        if d["ctx"] == "stored":
            st = d["stmt"]
            for tg in (st.targets if isinstance(st, ast.Assign) else [st.target]):
                t |= {n.id for n in ast.walk(tg) if isinstance(n, ast.Name) and isinstance(n.ctx, ast.Store)} or _names(tg)
        changed = True
        while changed:
            changed = False
            for n in ast.walk(self.f.node):
                if isinstance(n, ast.Assign):
                    src = _names(n.value)
                    if src & t:
                        for tg in n.targets:
                            roots = set()
                            for x in ast.walk(tg):
                                if isinstance(x, ast.Name):
                                    roots.add(x.id)
                            if not roots <= t:
                                t |= roots
                                changed = True
                elif isinstance(n, ast.AugAssign) and _names(n.value) & t:
                    roots = _names(n.target)
                    if not roots <= t:
                        t |= roots
                        changed = True
                elif isinstance(n, ast.Call) and isinstance(n.func, ast.Attribute) and n.func.attr in ("append", "extend", "insert", "add", "update"):
                    if any(_names(a) & t for a in n.args) and isinstance(n.func.value, ast.Name) and n.func.value.id not in t:
                        t.add(n.func.value.id)
                        changed = True
                elif isinstance(n, (ast.For, ast.comprehension)) and _names(n.iter) & t:
                    roots = _names(n.target)
                    if not roots <= t:
                        t |= roots
                        changed = True
        return t

    def consulted(self, d):
        """-> list of roles in which the outcome is consulted"""
        roles = []
        if d["ctx"] in ("cond-pred", "returned"):
            roles.append(d["ctx"])
        t = self.tainted(d)
        if not t:
            return roles
        for inner, outer in self.cond_calls:
            pred = inner.args[0] if inner.args else next((kw.value for kw in inner.keywords if kw.arg == "condition"), None)
            if pred is not None and _names(pred) & t:
                roles.append("cond-pred")
        for n in ast.walk(self.f.node):
            if isinstance(n, ast.Return) and n.value is not None and _names(n.value) & t:
                roles.append("return")
        return roles

    def other_uses(self, d):
        if not d["name"]:
            return 0
        return sum(1 for n in ast.walk(self.f.node) if isinstance(n, ast.Name) and n.id == d["name"] and isinstance(n.ctx, ast.Load))


def _wire_keys(e):
    """{(root, index text | None)} of a wires expression"""
    out = set()
    if isinstance(e, (ast.List, ast.Tuple, ast.Set)):
        for x in e.elts:
            out |= _wire_keys(x)
        return out
    if isinstance(e, ast.Starred):
        return _wire_keys(e.value)
    if isinstance(e, ast.Subscript):
        base = e.value
        while isinstance(base, (ast.Subscript, ast.Attribute)):
            base = base.value
        if isinstance(base, ast.Name):
            idx = None if isinstance(e.slice, ast.Slice) else norm(e.slice)
            out.add((base.id, idx))
        return out
    if isinstance(e, ast.Name):
        out.add((e.id, None))
    elif isinstance(e, ast.Attribute):
        base = e
        while isinstance(base, (ast.Subscript, ast.Attribute)):
            base = base.value
        if isinstance(base, ast.Name):
            out.add((base.id, None))
    return out


def _measure_wires(call, kind):
    i = 1 if kind == "pauli_measure" else 0
    w = next((kw.value for kw in call.keywords if kw.arg == "wires"), None)
    if w is None and len(call.args) > i:
        w = call.args[i]
    return w


def _covers(meas_key, guarded):
    r, i = meas_key
    return any(r2 == r and (i is None or i2 is None or i == i2) for r2, i2 in guarded)


def check(ctx):
    ix = ctx.index
    rep = Report("C13", "'every outcome branch is corrected' has a def/use core: an outcome that no correction consults cannot be corrected; "
                 "a wire that is measured and never receives a conditioned operator keeps its by-product; a measured work wire cannot be returned restored.")
    rep.rule("R-C13-use", "every outcome of measure()/pauli_measure() in a decomposition rule, an inlined helper or iterative_qpe flows (through local names and "
             "containers) into the predicate of a qp.cond(...) or into a return value; measure(..., reset=True) whose outcome is discarded is a reset")
    rep.rule("R-C13-wirecover", "in _hadamard_ppm and _pauli_ctrl_pauli_ppm (instances confirmed by reading) every wire passed to a mid-circuit measurement is also the "
             "target of at least one qp.cond(...)-guarded operator; other measuring rules are reported as unconfirmed instances, never as violations")
    rep.rule("R-C13-burn", "a function that measures a wire of its own `with allocate(...) as w` register must allocate it restored=False and the rule must declare the "
             "kind computed from (state, restored) — (zero,False) burnable, (any,False) garbage — unless the measurement resets the wire; in _hadamard_ppm and "
             "_pauli_ctrl_pauli_ppm, whose outcomes drive corrections of an identity valid for a |0> ancilla only, the state must be 'zero'")
    rep.assume("outcome flow is followed flow-insensitively through assignments, container stores, append/extend and loops inside the function that measures")
    rep.assume("which Pauli each correction applies on the 2^k outcome branches is not decided (stabilizer calculation)")
    sc = get_scanner(ix)

    # ---- functions that measure: rules (with inlined helpers) and iterative_qpe ----------------------
    funcs = {}  # (relpath, qualname) -> (FuncInfo, [rules])
    index = {}
    for f in ix.functions:
        index.setdefault((f.module.relpath, f.qualname), f)
    for ri in sc.rules():
        for m in ri.measures:
            f = index.get((m.module, m.func))
            if f is None:
                rep.unknown("R-C13-use", f"{ri.module.relpath}:{ri.qualname}", f"measuring function {m.func} not found in the index")
                continue
            funcs.setdefault((m.module, m.func), (f, []))[1].append(ri)
    iq = ix.func(IQPE, "iterative_qpe")
    funcs.setdefault((IQPE, "iterative_qpe"), (iq, []))
    for rel, name in CONFIRMED:
        f = ix.func(rel, name)  # AnalysisError when a confirmed instance vanished
        if (rel, name) not in funcs:
            raise AnalysisError(f"{rel}:{name} is no longer reached as a measuring function of a decomposition rule")

    n_defs = 0
    flows = {}
    for (rel, name), (f, rules) in sorted(funcs.items()):
        rep.analysed(rel, name)
        fl = flows[(rel, name)] = MeasureFlow(sc, f)
        if not fl.defs:
            if (rel, name) == (IQPE, "iterative_qpe"):
                raise AnalysisError("iterative_qpe no longer measures")
            continue
        for d in fl.defs:
            n_defs += 1
            label = d["name"] or norm(d["call"])[:40]
            where = f"{rel}:{name} {label}"
            roles = fl.consulted(d)
            if roles:
                rep.proved("R-C13-use", where, "consulted: " + ", ".join(sorted(set(roles))))
            elif d["ctx"] == "discarded" and d["reset"]:
                rep.exempt("R-C13-use", where, "measure(..., reset=True) used as a reset")
            elif d["ctx"] == "expr":
                rep.unknown("R-C13-use", where, "outcome is passed on inside an expression that is not followed")
            elif d["name"] and fl.other_uses(d) and any(
                isinstance(p, ast.Call) and not isinstance(p.func, ast.Attribute) and _resolve_callee(sc, f.module, p.func) is None
                for n in ast.walk(f.node) if isinstance(n, ast.Name) and n.id == d["name"] and isinstance(n.ctx, ast.Load)
                for p in [fl.parents.get(n)] if p is not None and isinstance(p, ast.Call) and n in p.args):
                rep.unknown("R-C13-use", where, "outcome is handed to another function")
            else:
                rep.refuted("R-C13-use", rel, name, d["stmt"],
                            f"{name}: the outcome {label} of {norm(d['call'])[:60]} is never consulted by a qp.cond(...) predicate nor returned: "
                            "the branch it selects cannot be corrected", line=d["call"].lineno)
    rep.floor("measurement outcomes in rules and iterative_qpe", n_defs, FLOOR_DEFS)
    rep.floor("functions that measure", sum(1 for fl in flows.values() if fl.defs), FLOOR_FUNCS)

    # ---- wirecover: confirmed instances only ----------------------------------------------------------
    for (rel, name), fl in sorted(flows.items()):
        if not fl.defs:
            continue
        where = f"{rel}:{name}"
        if (rel, name) not in CONFIRMED:
            if (rel, name) != (IQPE, "iterative_qpe"):
                rep.note(f"unconfirmed measuring rule {rel}:{name}: R-C13-wirecover not armed (armed only for instances confirmed by reading)")
                rep.exempt("R-C13-wirecover", where, "unconfirmed instance: def/use only")
            continue
        # locals that merely name a wire expression (`aux = work_wires[0]`, `control, target = wires[0], wires[1]`) are read through
        from ..astutil import inline_single_defs, read_through

        f = funcs[(rel, name)][0]  # the measuring function of this flow

        wire_defs = {k_: v_ for k_, v_ in inline_single_defs(f.node).items() if isinstance(v_, (ast.Subscript, ast.Name, ast.Attribute))}
        for st_ in ast.walk(f.node):
            if isinstance(st_, ast.Assign) and len(st_.targets) == 1 and isinstance(st_.targets[0], ast.Tuple) and isinstance(st_.value, ast.Tuple) \
                    and len(st_.targets[0].elts) == len(st_.value.elts):
                for t_, v_ in zip(st_.targets[0].elts, st_.value.elts):
                    if isinstance(t_, ast.Name) and isinstance(v_, (ast.Subscript, ast.Name, ast.Attribute)):
                        wire_defs.setdefault(t_.id, v_)

        def keys_of(e):
            return _wire_keys(read_through(e, wire_defs, keep=()))
        guarded = set()
        for inner, outer in fl.cond_calls:
            if outer is None:
                continue
            for a in outer.args:
                guarded |= keys_of(a)
            for kw in outer.keywords:
                if kw.arg == "wires":
                    guarded |= keys_of(kw.value)
        # outcomes handed to another function of the package (an extracted corrections helper): the conditioned operators may be there
        outcome_names = {d["name"] for d in fl.defs if d["name"]}
        def _package_function(fn_expr):
            if not isinstance(fn_expr, (ast.Name, ast.Attribute)):
                return None
            try:
                r_ = ix.resolve_expr(f.module, fn_expr)
            except RecursionError:
                return None
            return r_ if isinstance(r_, FuncInfo) and r_.name != "cond" else None
        escapes = any(isinstance(c_, ast.Call) and not (isinstance(c_.func, ast.Attribute) and c_.func.attr == "cond") and any(
            isinstance(x_, ast.Name) and x_.id in outcome_names for a_ in list(c_.args) + [k_.value for k_ in c_.keywords] for x_ in ast.walk(a_))
            and _package_function(c_.func) is not None for c_ in ast.walk(f.node))
        measured = {}
        for d in fl.defs:
            w = _measure_wires(d["call"], d["kind"])
            if w is None:
                rep.unknown("R-C13-wirecover", where, f"wires of {norm(d['call'])[:50]} not found")
                continue
            for k in keys_of(w):
                measured.setdefault(k, d)
        if not measured:
            raise AnalysisError(f"{where}: no measured wire recognised (confirmed instance changed shape)")
        for k, d in sorted(measured.items(), key=lambda kv: (kv[0][0], str(kv[0][1]))):
            txt = k[0] + (f"[{k[1]}]" if k[1] is not None else "")
            if _covers(k, guarded):
                rep.proved("R-C13-wirecover", f"{where} {txt}", "receives a cond-guarded operator")
            elif escapes:
                rep.unknown("R-C13-wirecover", f"{where} {txt}", "measurement outcomes are handed to another function of the package; the conditioned operators "
                            "may be queued there")
            else:
                rep.refuted("R-C13-wirecover", rel, name, f"{txt} measured by {norm(d['call'])[:60]}",
                            f"{name}: wire {txt} is measured ({norm(d['call'])[:60]}) but no qp.cond(...)-guarded operator acts on it: "
                            "its outcome-dependent by-product is never undone / the work wire does not end in a known state", line=d["call"].lineno)

    # ---- burn -------------------------------------------------------------------------------------------
    n_burn = 0
    seen = set()
    for ri in sc.rules():
        if not ri.allocs or not ri.measures:
            continue
        for site in ri.allocs:
            if not site.target:
                continue
            roots = {n for n in _names(ast.parse(site.target, mode="eval"))} if site.target else set()
            fl = flows.get((site.module, site.func))
            if fl is None:
                continue
            hits = []
            for d in fl.defs:
                w = _measure_wires(d["call"], d["kind"])
                if w is not None and {r for r, _ in _wire_keys(w)} & roots:
                    hits.append(d)
            if not hits:
                continue
            n_burn += 1
            where = f"{ri.module.relpath}:{ri.qualname} allocate as {site.target}"
            if all(d["reset"] for d in hits):
                rep.exempt("R-C13-burn", where, "every measurement of the allocated wire resets it")
                continue
            call = norm(site.node)[:70]
            decl = {}
            lit = isinstance(ri.work_wires, ast.Dict)
            if lit:
                for k, v in zip(ri.work_wires.keys, ri.work_wires.values):
                    if isinstance(k, ast.Constant):
                        decl[k.value] = v.value if isinstance(v, ast.Constant) else None
                    else:
                        lit = False
            key = (ri.module.relpath, ri.qualname, id(site.node))
            if site.restored is None:
                rep.unknown("R-C13-burn", where, "restored= is not a literal")
            elif site.restored is True:
                if key not in seen:
                    rep.refuted("R-C13-burn", ri.module.relpath, ri.qualname, f"{call} measured by {norm(hits[0]['call'])[:50]}",
                                f"{ri.qualname}: the work wire {site.target} allocated with restored=True ({call}) is measured ({norm(hits[0]['call'])[:50]}) and left in an "
                                "outcome-dependent state: it cannot be handed back restored — allocate restored=False and declare it burnable, or reset it",
                                line=site.node.lineno)
            elif site.state is None:
                rep.unknown("R-C13-burn", where, "state= is not a literal")
            elif site.state != "zero" and (site.module, site.func) in CONFIRMED:
                # the measurement-based identities of the confirmed rules hold for an ancilla prepared in |0> only
                if key not in seen:
                    rep.refuted("R-C13-burn", ri.module.relpath, ri.qualname, f"{call} state={site.state!r} measured by {norm(hits[0]['call'])[:50]}",
                                f"{ri.qualname}: the work wire {site.target} is allocated in state {site.state!r} ({call}) but its measurement outcomes "
                                f"({norm(hits[0]['call'])[:50]}) drive the corrections of a measurement-based identity that holds only for an ancilla prepared in |0>: "
                                "allocate state='zero', restored=False (kind burnable)", line=site.node.lineno)
            elif ri.work_wires is None or (lit and not decl.get(site.kind)):
                # kind from (state, restored) exactly as R-C11-work: (zero,False) -> burnable, (any,False) -> garbage
                if key not in seen:
                    have = norm(ri.work_wires)[:50] if ri.work_wires is not None else "no work_wires="
                    rep.refuted("R-C13-burn", ri.module.relpath, ri.qualname, f"{call} declared {have}",
                                f"{ri.qualname}: measures the work wire {site.target} it allocates with state={site.state!r}, restored=False ({call}: kind {site.kind}) "
                                f"but declares {have}: a {site.kind} work wire must be declared", line=site.node.lineno)
            elif not lit:
                rep.unknown("R-C13-burn", where, "work_wires= is not a literal dict")
            else:
                rep.proved("R-C13-burn", where, f"state={site.state!r}, restored=False (kind {site.kind}) and declared {norm(ri.work_wires)[:40]}")
            seen.add(key)
    rep.floor("rules that measure a wire they allocate", n_burn, FLOOR_BURN)
    rep.extra["c13_counts"] = {"outcomes": n_defs, "measuring_functions": sum(1 for fl in flows.values() if fl.defs), "burn_instances": n_burn}
    return rep
