"""R-C61-accindex — added after an independent seeded change (MomentumOptimizer indexing its accumulator by
trainable index while NesterovMomentumOptimizer.compute_grad reads it by argument index) was missed:
all methods that a concrete optimizer class resolves must index `self.accumulation` by the same kind of index."""

from __future__ import annotations

import ast

from ..cfg import walk_shallow
from ..core import norm
from ..index import FuncInfo

DIR = "pennylane/optimize/"


def _index_kinds(f: FuncInfo):
    """{'ARG','TRAIN','PARAM:<name>'} kinds of the variables used to index self.accumulation / passed to _update_accumulation in f,
    plus the sites."""
    node = f.node
    params = [a.arg for a in node.args.args]
    arg_vars, train_vars = set(), set()
    for n in walk_shallow(node):
        # for i, a in enumerate(args)   /   [i for i, a in enumerate(args) if ...]
        gens = []
        if isinstance(n, ast.For):
            gens.append((n.target, n.iter))
        if isinstance(n, (ast.ListComp, ast.GeneratorExp)):
            for g in n.generators:
                gens.append((g.target, g.iter))
        for tgt, it in gens:
            if isinstance(it, ast.Call) and norm(it.func) == "enumerate" and isinstance(tgt, ast.Tuple) and isinstance(tgt.elts[0], ast.Name):
                arg_vars.add(tgt.elts[0].id)
        if isinstance(n, ast.AugAssign) and isinstance(n.target, ast.Name) and isinstance(n.op, ast.Add):
            train_vars.add(n.target.id)
    # names iterating over a list built from enumerate indices:  trainable_indices = [i for i, arg in enumerate(args) if ...]
    idx_lists = set()
    for n in walk_shallow(node):
        if isinstance(n, ast.Assign) and isinstance(n.value, ast.ListComp) and isinstance(n.value.elt, ast.Name) and n.value.elt.id in arg_vars:
            idx_lists |= {t.id for t in n.targets if isinstance(t, ast.Name)}
    for n in walk_shallow(node):
        if isinstance(n, ast.For) and isinstance(n.iter, ast.Name) and n.iter.id in idx_lists and isinstance(n.target, ast.Name):
            arg_vars.add(n.target.id)
    sites = []
    for n in walk_shallow(node):
        idx = None
        if isinstance(n, ast.Subscript) and norm(n.value) == "self.accumulation" and isinstance(n.slice, ast.Name):
            idx = n.slice.id
        if isinstance(n, ast.Call) and isinstance(n.func, ast.Attribute) and n.func.attr == "_update_accumulation" and n.args and isinstance(n.args[0], ast.Name):
            idx = n.args[0].id
        if idx is None:
            continue
        if idx in train_vars:
            sites.append(("TRAIN", n))
        elif idx in arg_vars:
            sites.append(("ARG", n))
        elif idx in params:
            sites.append((f"PARAM:{idx}", n))
    return sites


def extra(ctx, rep):
    ix = ctx.index
    rep.rule("R-C61-accindex", "for every concrete optimizer class, all resolved methods index `self.accumulation` by the same kind of index "
             "(position in `args` vs. running count of trainable arguments): a writer and a reader that disagree pair the momentum of one "
             "argument with another as soon as a non-trainable argument precedes a trainable one")
    n_cls = 0
    for c in ix.classes:
        if not c.module.relpath.startswith(DIR):
            continue
        kinds = {}
        for name in ("apply_grad", "compute_grad", "_update_accumulation", "step", "step_and_cost"):
            dc, f = c.lookup(name)
            if isinstance(f, FuncInfo) and f.module.relpath.startswith(DIR):
                for k, node in _index_kinds(f):
                    if not k.startswith("PARAM:"):
                        kinds.setdefault(k, []).append((f, node))
        if not kinds:
            continue
        n_cls += 1
        where = f"{c.module.relpath}:{c.name}"
        if len(kinds) == 1:
            rep.proved("R-C61-accindex", where, f"accumulator indexed by {next(iter(kinds))} index in all {sum(len(v) for v in kinds.values())} resolved sites")
        else:
            fa, na = kinds["ARG"][0]
            ft, nt = kinds["TRAIN"][0]
            rep.refuted("R-C61-accindex", ft.module.relpath, ft.qualname, nt,
                        f"{c.name} indexes its accumulator by the running trainable count in {ft.qualname} (`{norm(nt)[:60]}`) but by the argument "
                        f"position in {fa.qualname} (`{norm(na)[:60]}`): with a non-trainable argument before a trainable one the two refer to different slots",
                        optimizer=c.name)
    rep.floor("optimizer classes with an indexed accumulator", n_cls, 5)


def tstep(ctx, rep):
    """R-C61-tstep: the step counter of an optimizer advances once per optimisation step."""
    ix = ctx.index
    rep.rule("R-C61-tstep", "every `self.<counter> += 1` / `self.accumulation['<key>'] += 1` in an optimizer class runs once per step: it is neither inside "
             "a loop of its own method nor in a method that another method of the class calls from inside a loop (the per-argument loop of "
             "apply_grad): Adam's bias correction, SPSA's gain sequences and the shot-adaptive schedule are functions of the step number")
    n = 0
    for c in ix.classes:
        rel = c.module.relpath
        if not rel.startswith("pennylane/optimize/"):
            continue
        for name, fl in c.methods.items():
            for f in fl:
                incs = []
                parents = {}
                for p_ in ast.walk(f.node):
                    for ch in ast.iter_child_nodes(p_):
                        parents[ch] = p_
                for n_ in ast.walk(f.node):
                    if isinstance(n_, ast.AugAssign) and isinstance(n_.op, ast.Add) and isinstance(n_.value, ast.Constant) and n_.value.value == 1:
                        t = n_.target
                        if (isinstance(t, ast.Attribute) and isinstance(t.value, ast.Name) and t.value.id == "self") or (
                                isinstance(t, ast.Subscript) and isinstance(t.value, ast.Attribute) and isinstance(t.value.value, ast.Name)
                                and t.value.value.id == "self" and isinstance(t.slice, ast.Constant) and isinstance(t.slice.value, str)):
                            incs.append(n_)
                for inc in incs:
                    n += 1
                    rep.analysed(rel, f.qualname)
                    where = f"{rel}:{f.qualname} `{norm(inc)}`"
                    x = inc
                    in_loop = None
                    while x in parents and parents[x] is not f.node:
                        x = parents[x]
                        if isinstance(x, (ast.For, ast.While, ast.ListComp, ast.GeneratorExp)):
                            in_loop = x
                            break
                    if in_loop is not None:
                        rep.refuted("R-C61-tstep", rel, f.qualname, inc,
                                    f"`{norm(inc)}` sits inside `{norm(in_loop).splitlines()[0][:60]}`: the step counter advances once per loop iteration "
                                    "(per trainable argument) instead of once per optimisation step", line=inc.lineno)
                        continue
                    # callers inside loops (methods of the class hierarchy that resolve to this class's method)
                    bad = None
                    for k in ix.classes:
                        if c not in k.mro() and k not in c.mro():
                            continue
                        for nm2, fl2 in k.methods.items():
                            for g in fl2:
                                if g is f:
                                    continue
                                for loop in [y for y in ast.walk(g.node) if isinstance(y, (ast.For, ast.While))]:
                                    for call in [y for b_ in loop.body for y in ast.walk(b_) if isinstance(y, ast.Call)]:
                                        if isinstance(call.func, ast.Attribute) and isinstance(call.func.value, ast.Name) and call.func.value.id == "self" \
                                                and call.func.attr == name:
                                            # does `self.<name>` of class k resolve to f?
                                            dc, rf = k.lookup(name)
                                            if rf is f or (isinstance(rf, type(f)) and rf.node is f.node):
                                                bad = (g, loop, call)
                    if bad:
                        g, loop, call = bad
                        rep.refuted("R-C61-tstep", rel, f.qualname, inc,
                                    f"`{norm(inc)}` is executed by `{f.name}`, which `{g.qualname}` calls inside `{norm(loop).splitlines()[0][:60]}`: the step "
                                    "counter advances once per trainable argument instead of once per optimisation step, so with two or more trainable "
                                    "arguments the bias-corrected step size is computed for the wrong step number", line=inc.lineno)
                    else:
                        rep.proved("R-C61-tstep", where, "runs once per call of its method; the method is not called from a loop of the class")
    rep.floor("step-counter increments in optimizer classes", n, 4)


def metric_state(ctx, rep):
    """R-C61-mtstate — the stored metric tensor of the natural-gradient optimizers is g(x) + lam·I for the parameters it was computed at
    (re-used as it is when recompute_tensor=False).  A store `self.metric_tensor = F(… self.metric_tensor …)` re-derives it from its
    own previous value: the regularisation (or any other non-idempotent step in F) is then applied once per optimisation step, and
    step k uses pinv(g + k·lam·I) instead of the documented pinv(g + lam·I)."""
    ix = ctx.index
    rep.rule("R-C61-mtstate", "in pennylane/optimize every store to self.metric_tensor has a value that does not read self.metric_tensor, neither "
             "directly nor through locals bound to it on the straight-line code before the store (the stored tensor is computed from the "
             "current arguments, never from its previous stored value)")
    n = 0
    for m in ix.modules.values():
        if not m.relpath.startswith("pennylane/optimize/") or "metric_tensor" not in m.source:
            continue
        for f in ix.funcs_in(m):
            if f.cls is None or f.name == "__init__":
                continue
            parents = {}
            for p in ast.walk(f.node):
                for fld in ("body", "orelse", "finalbody"):
                    blk = getattr(p, fld, None)
                    if isinstance(blk, list):
                        for s_ in blk:
                            parents[id(s_)] = (p, blk)

            def reads_state(e, st, depth=0):
                if "self.metric_tensor" in norm(e):
                    return True
                if depth > 4:
                    return False
                for nm in {x.id for x in ast.walk(e) if isinstance(x, ast.Name)}:
                    cur = st
                    while id(cur) in parents:
                        par, blk = parents[id(cur)]
                        before = blk[: blk.index(cur)]
                        d = next((b for b in reversed(before) if isinstance(b, ast.Assign) and any(isinstance(t, ast.Name) and t.id == nm for t in b.targets)), None)
                        if d is not None:
                            if reads_state(d.value, d, depth + 1):
                                return True
                            break
                        if any(isinstance(x, ast.Name) and x.id == nm and isinstance(x.ctx, ast.Store) for b in before for x in ast.walk(b)):
                            break  # bound in a nested construct before: not decided
                        cur = par
                        if isinstance(cur, (ast.FunctionDef, ast.AsyncFunctionDef)):
                            break
                return False
            for st in ast.walk(f.node):
                if isinstance(st, ast.Assign) and any(isinstance(t, ast.Attribute) and t.attr == "metric_tensor" and isinstance(t.value, ast.Name)
                                                      and t.value.id == "self" for t in st.targets):
                    n += 1
                    where = f"{m.relpath}:{f.qualname} `{norm(st)[:60]}`"
                    if reads_state(st.value, st):
                        rep.refuted("R-C61-mtstate", m.relpath, f.qualname, st,
                                    "the stored metric tensor is re-derived from its own previous stored value: with recompute_tensor=False (the tensor is "
                                    "re-used) the reshaping / lam·I regularisation is applied again on every step, so step k uses pinv(g + k·lam·I) instead "
                                    "of the documented pinv(g + lam·I)")
                    else:
                        rep.proved("R-C61-mtstate", where, "computed from the current arguments only")
    rep.floor("stores to self.metric_tensor in pennylane/optimize", n, 2)
