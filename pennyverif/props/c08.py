"""C08 — commutation checks are sound: the lookup table of ``ops/functions/is_commuting.py``.

``_create_commute_function`` maps every name of ``PAULIX_GROUP`` / ``PAULIY_GROUP`` / ``PAULIZ_GROUP``
(and ``SWAP_GROUP`` / ``SELF_COMMUTE``) to its group; two operations whose targets overlap are
reported commuting iff the name of one is in the group of the other.  That is sound only if every
member of a Pauli group is, on each of its wires, a function of that one Pauli letter.

R-C08-letter  for each member: the letter it is provably a function of, from (a) the Pauli words of its
              one-parameter ``generator()``, (b) the ``PauliWord`` literals of its ``pauli_rep`` (being the
              Pauli itself), (c) E4 shape Diagonal / NotDiagonal of ``compute_matrix``, (d) the exact 2x2
              pattern ``a*1 + b*P``.  Any evidence for another letter refutes; at least one for the group's
              letter proves; otherwise unknown.  ``ctrl`` / ``Identity`` / ``BasisState`` are table
              exceptions.  A name in two groups of the loop is refuted (the later group silently
              overrides the earlier one in ``commutation_map``), except ``Identity``.
"""

from __future__ import annotations

import ast

from .. import opfacts as F
from .. import trigdom as T
from ..core import AnalysisError, Report

RULE = "R-C08-letter"
IC = "pennylane/ops/functions/is_commuting.py"
LETTER_GROUPS = {"PAULIX_GROUP": "X", "PAULIY_GROUP": "Y", "PAULIZ_GROUP": "Z"}

EXCEPTIONS = {
    "ctrl": "pseudo-name, not an operator: it stands for the control wires of a controlled operation, which act as the diagonal projector "
            "|1><1| (a function of Z); is_commuting looks it up against the target name of the other operation on a shared control wire",
    "Identity": "commutes with every operator, so it is a function of every letter; `_commutes` answers True for the names in IDENTITIES before "
                "the map is consulted, which also makes its double listing (X and Y group) harmless",
    "BasisState": "state preparation without a matrix; on |0...0> it is implemented as PauliX flips on the wires whose bit is 1 (class docstring: "
                  "'decompose the operation into PauliX operations'), i.e. a function of X per wire",
}
DUPLICATE_EXCEPTIONS = {"Identity"}


def groups_of_the_map(ix):
    """the ``for group in [G1, G2, ...]`` loop of _create_commute_function that fills commutation_map
    -> list of (group name, [(member, Constant node)], Set node) in loop order"""
    m = ix.module(IC)
    f = ix.func(IC, "_create_commute_function")
    loops = []
    for n in ast.walk(f.node):
        if not (isinstance(n, ast.For) and isinstance(n.iter, (ast.List, ast.Tuple)) and isinstance(n.target, ast.Name)):
            continue
        g = n.target.id
        stores = [s for s in ast.walk(n) if isinstance(s, ast.Assign) and len(s.targets) == 1 and isinstance(s.targets[0], ast.Subscript)
                  and isinstance(s.value, ast.Name) and s.value.id == g]
        if stores:
            loops.append(n)
    if len(loops) != 1:
        raise AnalysisError(f"{IC}:_create_commute_function: expected one `for group in [...]` loop filling the map, found {len(loops)}")
    out = []
    for e in loops[0].iter.elts:
        if not isinstance(e, ast.Name):
            raise AnalysisError(f"{IC}:_create_commute_function: group list holds a non-name: {ast.unparse(e)[:40]}")
        vals = m.all_assigns.get(e.id, [])
        if len(vals) != 1 or not isinstance(vals[0], ast.Set) or not all(isinstance(x, ast.Constant) and isinstance(x.value, str) for x in vals[0].elts):
            raise AnalysisError(f"{IC}:{e.id} is not a single module-level set display of string literals")
        out.append((e.id, [(x.value, x) for x in vals[0].elts], vals[0]))
    return out, f


def _diag_nonscalar(m):
    n = len(m)
    if any(not m[i][j].is_zero() for i in range(n) for j in range(n) if i != j):
        return False
    return any(m[i][i] != m[0][0] for i in range(1, n))


def evidence(ix, cls):
    """-> list of (source, verdict letters: set of letters the operator is provably a non-trivial function of | None, text)
    plus the list of 'is compatible with Z' style proofs: (source, set of compatible letters, text)"""
    refuting = []  # (source, letters that provably occur, text)
    proving = []  # (source, letters the operator is provably confined to, text)
    # (a) generator
    g = F.generator_info(ix, cls)
    if g is not None and g.n_params == 1:
        L = g.letters()
        if L is not None:
            what = f"generator() ({g.form}{' of ' + g.base_cls.name if g.base_cls else ''}) is built from the Pauli letters {sorted(L) or ['I']}"
            proving.append(("generator", set(L), what))
            if L:
                refuting.append(("generator", set(L), what))
    # (b) pauli_rep
    pr = F.pauli_rep_letters(ix, cls)
    if pr is not None:
        L, nwords = pr
        what = f"pauli_rep is built from PauliWord literals with the letters {sorted(L) or ['I']}"
        proving.append(("pauli_rep", set(L), what))
        if L:
            refuting.append(("pauli_rep", set(L), what))
    # (c) E4 shape
    info = T.analyse_matrix(ix, cls)
    if info.node is not None:
        qn = f"{info.node.module.relpath}:{info.node.qualname}"
        if info.shape == "diagonal":
            proving.append(("shape", {"Z"}, f"E4 shape of {qn} is Diagonal (a function of Z on every wire)"))
        elif info.shape == "notdiagonal":
            refuting.append(("shape", {"X|Y"}, f"E4 shape of {qn} is NotDiagonal (an off-diagonal entry is certainly non-zero)"))
    # (d) exact pattern
    m = F.exact_entries(ix, cls)
    if m is not None:
        p = F.pauli_pattern(m)
        if p in ("X", "Y", "Z"):
            pat = {"X": "[[a, b], [b, a]]", "Y": "[[a, -c], [c, a]]", "Z": "diag(a, d) with a != d"}[p]
            what = f"the exact 2x2 matrix of {cls.name}.compute_matrix has the pattern {pat} = a*1 + b*{p} with b != 0"
            proving.append(("pattern", {p}, what))
            refuting.append(("pattern", {p}, what))
        elif p == "I":
            proving.append(("pattern", set(), "the exact matrix is a multiple of the identity"))
        elif len(m) > 2 and _diag_nonscalar(m):
            refuting.append(("pattern", {"Z"}, f"the exact matrix of {cls.name}.compute_matrix is diagonal with different diagonal entries (a non-trivial function of Z)"))
    return proving, refuting


def _conflicts(letters, group_letter):
    """does evidence for these letters contradict membership in the group of `group_letter`?"""
    for l in letters:
        if l == "X|Y":
            if group_letter == "Z":
                return True
        elif l != group_letter:
            return True
    return False


def check(ctx):
    ix = ctx.index
    rep = Report("C08", "soundness of the commutation lookup table of ops/functions/is_commuting.py: every member of a Pauli group is a function "
                 "of that Pauli letter on each of its wires, and no name is claimed by two groups.")
    rep.rule(RULE, "for each member of PAULIX/PAULIY/PAULIZ_GROUP: letter evidence from (a) the Pauli words of its one-parameter generator(), "
             "(b) the PauliWord literals of its pauli_rep, (c) E4 shape Diagonal/NotDiagonal of compute_matrix, (d) the exact 2x2 pattern "
             "a*1 + b*P; evidence for another letter => refuted, evidence for the group's letter and none against => proved, else unknown; "
             "ctrl / Identity / BasisState are table exceptions with reasons; a name in two groups of the commutation_map loop is refuted "
             "(later group overrides), except Identity")
    rep.assume("an operator with generator G and one parameter is exp(i p G); distinct Pauli words are linearly independent, so a generator "
               "term with a non-zero literal coefficient carrying another letter on a wire does not commute with the group's Pauli on that wire")
    rep.assume("E4 reads literal matrices exactly; NotDiagonal means an off-diagonal entry is certainly non-zero")
    rep.assume("every PauliWord literal built by a class's own pauli_rep property enters the PauliSentence with a non-zero coefficient")
    rep.analysed(IC, "_create_commute_function")

    groups, f = groups_of_the_map(ix)
    names = [g for g, _m, _n in groups]
    for g in LETTER_GROUPS:
        if g not in names:
            raise AnalysisError(f"{IC}: {g} is no longer one of the groups the commutation_map loop runs over ({names})")

    # duplicates across the groups of the loop
    seen = {}
    n_dup_checked = 0
    for gname, members, _node in groups:
        for name, node in members:
            n_dup_checked += 1
            if name in seen and seen[name] != gname:
                if name in DUPLICATE_EXCEPTIONS:
                    rep.exempt(RULE, f"{IC}:{gname}[{name}] (duplicate)", f"also in {seen[name]}: {EXCEPTIONS.get(name, '')}")
                else:
                    rep.refuted(RULE, IC, f"{gname}[{name}] duplicate of {seen[name]}[{name}]", node,
                                f"'{name}' is a member of {seen[name]} and of {gname}: commutation_map['{name}'] is overwritten by the later group "
                                f"({gname}), so '{name}' silently stops commuting with the members of {seen[name]} and is reported commuting with "
                                f"those of {gname}", first=seen[name])
            seen.setdefault(name, gname)

    n_members = n_proved = n_exc = 0
    for gname, members, _node in groups:
        letter = LETTER_GROUPS.get(gname)
        if letter is None:
            rep.exempt(RULE, f"{IC}:{gname}", "not a Pauli-letter group (partial overlaps of SWAP-like gates and Hadamard self-commutation are not decided)")
            continue
        own = {"X": "PauliX", "Y": "PauliY", "Z": "PauliZ"}[letter]
        if own not in [n for n, _ in members]:
            rep.unknown(RULE, f"{IC}:{gname}", f"the group does not contain {own}: its letter is taken from its name only")
        for name, node in members:
            n_members += 1
            where = f"{IC}:{gname}[{name}]"
            if name in EXCEPTIONS:
                n_exc += 1
                rep.exempt(RULE, where, EXCEPTIONS[name])
                continue
            cls = F.resolve_op_name(ix, name)
            if cls is None:
                rep.unknown(RULE, where, f"'{name}' does not resolve to an operator class of the package (the entry can never match an op.name)")
                continue
            rep.analysed(cls.module.relpath, cls.name)
            proving, refuting = evidence(ix, cls)
            against = [(src, L, text) for src, L, text in refuting if _conflicts(L, letter)]
            if against:
                rep.refuted(RULE, IC, f"{gname}[{name}]", node,
                            f"'{name}' is listed in {gname} (operators that are functions of Pauli {letter} on each wire, hence commute with each "
                            f"other on overlapping wires) but " + "; and ".join(t for _s, _l, t in against)
                            + f": {name} does not commute with Pauli{letter} on a shared wire, yet is_commuting reports True for it and every "
                            f"member of the group", cls=cls.fq, letter=letter)
                continue
            good = [(src, text) for src, L, text in proving if L <= {letter}]
            if good:
                n_proved += 1
                rep.proved(RULE, where, "; ".join(f"({src}) {text}" for src, text in good))
            else:
                rep.unknown(RULE, where, "no structural evidence for any letter (no one-parameter generator, no pauli_rep literal, matrix shape unknown)")

    rep.floor("groups in the commutation_map loop", len(groups), 5)
    rep.floor("names checked for double membership", n_dup_checked, 24)
    rep.floor("members of the three Pauli-letter groups", n_members, 19)
    rep.floor("table exceptions met (ctrl, Identity x2, BasisState)", n_exc, 4)
    rep.floor("members proved to be functions of their group's letter", n_proved, 15)
    return rep
