"""C08 — commutation checks are sound: the lookup table of ``ops/functions/is_commuting.py``.

``_create_commute_function`` maps every name of ``PAULIX_GROUP`` / ``PAULIY_GROUP`` / ``PAULIZ_GROUP``
(and ``SWAP_GROUP`` / ``SELF_COMMUTE``) to its group; two operations whose targets overlap are
reported commuting iff the name of one is in the group of the other.  That is sound only if every
member of a Pauli group is, on each of its wires, a function of that one Pauli letter.

R-C08-letter  for each member: the letter it is provably a function of, from (a) the Pauli words of its
              one-parameter ``generator()``, (b) the ``PauliWord`` literals of its ``pauli_rep`` (being the
              Pauli itself), (c) E4 shape Diagonal / NotDiagonal of ``compute_matrix``, (d) the exact 2x2
              pattern ``a*1 + b*P``.  Any evidence for another letter refutes; at least one for the group's
              letter proves; otherwise unknown.  ``ctrl`` / ``Identity`` / ``BasisState`` are table
              exceptions.  A name in two groups of the loop is refuted (the later group silently
              overrides the earlier one in ``commutation_map``), except ``Identity``.

R-C08-frozen  the group tables (module-level set / list displays of names) and every alias of them — loop variables
              running over the groups, and the values of mappings such as ``commutation_map`` that store the groups by
              reference — are never mutated in the module: no augmented assignment, no mutating method, no item store.
              (``commutation_map[op] |= group`` would silently merge one group into another *table*.)
"""

from __future__ import annotations

import ast

from .. import opfacts as F
from .. import trigdom as T
from ..core import AnalysisError, Report, norm

RULE = "R-C08-letter"
FROZEN = "R-C08-frozen"
IC = "pennylane/ops/functions/is_commuting.py"
LETTER_GROUPS = {"PAULIX_GROUP": "X", "PAULIY_GROUP": "Y", "PAULIZ_GROUP": "Z"}

EXCEPTIONS = {
    "ctrl": "pseudo-name, not an operator: it stands for the control wires of a controlled operation, which act as the diagonal projector "
            "|1><1| (a function of Z); is_commuting looks it up against the target name of the other operation on a shared control wire",
    "Identity": "commutes with every operator, so it is a function of every letter; `_commutes` answers True for the names in IDENTITIES before "
                "the map is consulted, which also makes its double listing (X and Y group) harmless",
    "BasisState": "state preparation without a matrix; on |0...0> it is implemented as PauliX flips on the wires whose bit is 1 (class docstring: "
                  "'decompose the operation into PauliX operations'), i.e. a function of X per wire",
}
DUPLICATE_EXCEPTIONS = {"Identity"}


def groups_of_the_map(ix):
    """the ``for group in [G1, G2, ...]`` loop of _create_commute_function that fills commutation_map
    -> list of (group name, [(member, Constant node)], Set node) in loop order"""
    m = ix.module(IC)
    f = ix.func(IC, "_create_commute_function")
    loops = []
    for n in ast.walk(f.node):
        if not (isinstance(n, ast.For) and isinstance(n.iter, (ast.List, ast.Tuple)) and isinstance(n.target, ast.Name)):
            continue
        g = n.target.id
        stores = [s for s in ast.walk(n) if isinstance(s, ast.Assign) and len(s.targets) == 1 and isinstance(s.targets[0], ast.Subscript)
                  and any(isinstance(x, ast.Name) and x.id == g for x in ast.walk(s.value))]
        if stores:
            loops.append(n)
    def _listing(e):
        """the list/tuple display of group names, directly or through a local bound once to such a display"""
        if isinstance(e, (ast.List, ast.Tuple)):
            return e
        if isinstance(e, ast.Name):
            defs = [s.value for s in ast.walk(f.node) if isinstance(s, ast.Assign) and len(s.targets) == 1 and isinstance(s.targets[0], ast.Name)
                    and s.targets[0].id == e.id]
            if len(defs) == 1 and isinstance(defs[0], (ast.List, ast.Tuple)):
                return defs[0]
        return None
    listing = None
    if len(loops) == 1:
        listing = loops[0].iter
    else:
        # the same table written as a comprehension: {name: group for group in <groups> for name in group}
        for n in ast.walk(f.node):
            if isinstance(n, ast.DictComp) and len(n.generators) == 2 and isinstance(n.generators[0].target, ast.Name) \
                    and isinstance(n.generators[1].iter, ast.Name) and n.generators[1].iter.id == n.generators[0].target.id \
                    and isinstance(n.value, ast.Name) and n.value.id == n.generators[0].target.id and _listing(n.generators[0].iter) is not None:
                listing = _listing(n.generators[0].iter)
        if listing is None:
            for n in ast.walk(f.node):
                if isinstance(n, ast.For) and isinstance(n.target, ast.Name) and isinstance(n.iter, ast.Name) and _listing(n.iter) is not None and any(
                        isinstance(s_, ast.Assign) and isinstance(s_.targets[0], ast.Subscript) for s_ in ast.walk(n)):
                    listing = _listing(n.iter)
    if listing is None:
        raise AnalysisError(f"{IC}:_create_commute_function: the loop / comprehension over the group list that fills the map was not found")
    out = []
    for e in listing.elts:
        if not isinstance(e, ast.Name):
            raise AnalysisError(f"{IC}:_create_commute_function: group list holds a non-name: {ast.unparse(e)[:40]}")
        vals = m.all_assigns.get(e.id, [])
        if len(vals) != 1 or not isinstance(vals[0], ast.Set) or not all(isinstance(x, ast.Constant) and isinstance(x.value, str) for x in vals[0].elts):
            raise AnalysisError(f"{IC}:{e.id} is not a single module-level set display of string literals")
        out.append((e.id, [(x.value, x) for x in vals[0].elts], vals[0]))
    return out, f


def _diag_nonscalar(m):
    n = len(m)
    if any(not m[i][j].is_zero() for i in range(n) for j in range(n) if i != j):
        return False
    return any(m[i][i] != m[0][0] for i in range(1, n))


def evidence(ix, cls):
    """-> list of (source, verdict letters: set of letters the operator is provably a non-trivial function of | None, text)
    plus the list of 'is compatible with Z' style proofs: (source, set of compatible letters, text)"""
    refuting = []  # (source, letters that provably occur, text)
    proving = []  # (source, letters the operator is provably confined to, text)
    # (a) generator
    g = F.generator_info(ix, cls)
    if g is not None and g.n_params == 1:
        L = g.letters()
        if L is not None:
            what = f"generator() ({g.form}{' of ' + g.base_cls.name if g.base_cls else ''}) is built from the Pauli letters {sorted(L) or ['I']}"
            proving.append(("generator", set(L), what))
            if L:
                refuting.append(("generator", set(L), what))
    # (b) pauli_rep
    pr = F.pauli_rep_letters(ix, cls)
    if pr is not None:
        L, nwords = pr
        what = f"pauli_rep is built from PauliWord literals with the letters {sorted(L) or ['I']}"
        proving.append(("pauli_rep", set(L), what))
        if L:
            refuting.append(("pauli_rep", set(L), what))
    # (c) E4 shape
    info = T.analyse_matrix(ix, cls)
    if info.node is not None:
        qn = f"{info.node.module.relpath}:{info.node.qualname}"
        if info.shape == "diagonal":
            proving.append(("shape", {"Z"}, f"E4 shape of {qn} is Diagonal (a function of Z on every wire)"))
        elif info.shape == "notdiagonal":
            refuting.append(("shape", {"X|Y"}, f"E4 shape of {qn} is NotDiagonal (an off-diagonal entry is certainly non-zero)"))
    # (d) exact pattern
    m = F.exact_entries(ix, cls)
    if m is not None:
        p = F.pauli_pattern(m)
        if p in ("X", "Y", "Z"):
            pat = {"X": "[[a, b], [b, a]]", "Y": "[[a, -c], [c, a]]", "Z": "diag(a, d) with a != d"}[p]
            what = f"the exact 2x2 matrix of {cls.name}.compute_matrix has the pattern {pat} = a*1 + b*{p} with b != 0"
            proving.append(("pattern", {p}, what))
            refuting.append(("pattern", {p}, what))
        elif p == "I":
            proving.append(("pattern", set(), "the exact matrix is a multiple of the identity"))
        elif len(m) > 2 and _diag_nonscalar(m):
            refuting.append(("pattern", {"Z"}, f"the exact matrix of {cls.name}.compute_matrix is diagonal with different diagonal entries (a non-trivial function of Z)"))
    return proving, refuting


def _conflicts(letters, group_letter):
    """does evidence for these letters contradict membership in the group of `group_letter`?"""
    for l in letters:
        if l == "X|Y":
            if group_letter == "Z":
                return True
        elif l != group_letter:
            return True
    return False


# ------------------------------------------------------------------------------------------ frozen
MUTATORS = {"add", "update", "discard", "remove", "clear", "pop", "append", "extend", "insert", "sort", "reverse", "difference_update",
            "intersection_update", "symmetric_difference_update", "__ior__", "__iand__", "__isub__", "__ixor__", "__iadd__", "setdefault"}
VALUE_READS = {"get", "setdefault", "pop"}  # mapping methods that hand out a stored value


def group_tables(module):
    """module-level names bound (once) to a set / list / tuple display of string literals"""
    out = {}
    for name, vals in module.all_assigns.items():
        if len(vals) == 1 and isinstance(vals[0], (ast.Set, ast.List)) and vals[0].elts and all(
                isinstance(x, ast.Constant) and isinstance(x.value, str) for x in vals[0].elts):
            out[name] = vals[0]
    return out


class _Frozen:
    """flow-sensitive (structured, strong updates) may-alias reading of one module: which names / mapping values may be one
    of the group tables *by reference*, and every statement that mutates such a value"""

    def __init__(self, module, tables):
        self.module, self.tables = module, tables
        self.holders = {}  # mapping name -> set of group names its values may alias
        self.findings = {}  # id(node) -> (scope, node, groups, how)

    # -- alias evaluation --------------------------------------------------------------------
    def alias(self, e, env):
        """set of group tables the value of ``e`` may be (the same object as)"""
        if isinstance(e, ast.Name):
            return set(env.get(e.id, ()))
        if isinstance(e, ast.Subscript):
            if isinstance(e.value, ast.Name) and e.value.id in self.holders and not env.get(e.value.id):
                return set(self.holders[e.value.id])
            return set()
        if isinstance(e, ast.Call) and isinstance(e.func, ast.Attribute) and e.func.attr in VALUE_READS:
            v = e.func.value
            if isinstance(v, ast.Name) and v.id in self.holders:
                out = set(self.holders[v.id])
                for a in e.args[1:]:
                    out |= self.alias(a, env)
                return out
            return set()
        if isinstance(e, ast.IfExp):
            return self.alias(e.body, env) | self.alias(e.orelse, env)
        if isinstance(e, ast.BoolOp):
            return set().union(*[self.alias(v, env) for v in e.values])
        if isinstance(e, ast.NamedExpr):
            return self.alias(e.value, env)
        return set()  # calls (set(g), g.copy()), binary operators, displays, comprehensions: a fresh object

    def elements_alias(self, it, env):
        """what a loop variable over ``it`` may alias"""
        if isinstance(it, (ast.List, ast.Tuple, ast.Set)):
            return set().union(*[self.alias(x, env) for x in it.elts]) if it.elts else set()
        if isinstance(it, ast.Call) and isinstance(it.func, ast.Attribute) and it.func.attr == "values" and isinstance(it.func.value, ast.Name):
            return set(self.holders.get(it.func.value.id, ()))
        return set()

    def bind(self, target, groups, env):
        if isinstance(target, ast.Name):
            env[target.id] = set(groups)
        elif isinstance(target, (ast.Tuple, ast.List)):
            for t in target.elts:
                self.bind(t.value if isinstance(t, ast.Starred) else t, (), env)

    def hold(self, name, groups):
        if groups:
            self.holders.setdefault(name, set()).update(groups)

    # -- mutation detection ------------------------------------------------------------------
    def flag(self, scope, node, groups, how):
        if groups:
            self.findings[id(node)] = (scope, node, sorted(groups), how)

    def scan_calls(self, node, env, scope):
        for n in ast.walk(node):
            if isinstance(n, (ast.FunctionDef, ast.AsyncFunctionDef, ast.Lambda)) and n is not node:
                continue
            if isinstance(n, ast.Call) and isinstance(n.func, ast.Attribute) and n.func.attr in MUTATORS:
                g = self.alias(n.func.value, env)
                if g and not (n.func.attr in ("setdefault", "pop") and isinstance(n.func.value, ast.Name) and n.func.value.id in self.holders):
                    self.flag(scope, n, g, f"calls the mutating method .{n.func.attr}() on")
            if isinstance(n, ast.Call) and isinstance(n.func, ast.Attribute) and n.func.attr == "setdefault" and isinstance(n.func.value, ast.Name) and len(n.args) == 2:
                self.hold(n.func.value.id, self.alias(n.args[1], env))
            if isinstance(n, ast.DictComp):
                cenv = dict(env)
                for gen in n.generators:
                    self.bind(gen.target, self.elements_alias(gen.iter, cenv), cenv)
                n._c08_value_alias = self.alias(n.value, cenv)

    def store_target(self, t, env, scope, st, aug=False):
        """a Subscript / Attribute store: item store into an aliased group?"""
        if isinstance(t, ast.Subscript):
            g = self.alias(t.value, env)
            if g:
                self.flag(scope, st, g, "stores an item into")
            elif aug:
                g = self.alias(t, env)
                self.flag(scope, st, g, "applies an in-place augmented assignment to a mapping value that is")

    # -- statements ----------------------------------------------------------------------------
    def block(self, stmts, env, scope, defs):
        for st in stmts:
            env = self.stmt(st, env, scope, defs)
        return env

    def join(self, a, b):
        out = {}
        for k in set(a) | set(b):
            out[k] = set(a.get(k, ())) | set(b.get(k, ()))
        return out

    def stmt(self, st, env, scope, defs):
        if isinstance(st, (ast.FunctionDef, ast.AsyncFunctionDef)):
            defs.append(st)
            env = dict(env)
            env[st.name] = set()
            return env
        if isinstance(st, ast.ClassDef):
            return env
        if isinstance(st, ast.Assign):
            self.scan_calls(st.value, env, scope)
            g = self.alias(st.value, env)
            env = dict(env)
            for t in st.targets:
                if isinstance(t, ast.Name):
                    env[t.id] = set(g)
                    if isinstance(st.value, ast.Dict):
                        self.hold(t.id, set().union(*[self.alias(v, env) for v in st.value.values if v is not None]) if st.value.values else set())
                    elif isinstance(st.value, ast.DictComp):
                        self.hold(t.id, getattr(st.value, "_c08_value_alias", set()))
                    elif isinstance(st.value, ast.Name) and st.value.id in self.holders:
                        self.hold(t.id, self.holders[st.value.id])
                elif isinstance(t, ast.Subscript):
                    self.scan_calls(t, env, scope)
                    if isinstance(t.value, ast.Name) and not self.alias(t.value, env):
                        self.hold(t.value.id, g)  # M[k] = <group>: M now hands the group out by reference
                    else:
                        self.store_target(t, env, scope, st)
                else:
                    self.bind(t, (), env)
            return env
        if isinstance(st, ast.AnnAssign):
            if st.value is not None:
                self.scan_calls(st.value, env, scope)
                if isinstance(st.target, ast.Name):
                    env = dict(env)
                    env[st.target.id] = self.alias(st.value, env)
            return env
        if isinstance(st, ast.AugAssign):
            self.scan_calls(st.value, env, scope)
            if isinstance(st.target, ast.Name):
                self.flag(scope, st, self.alias(st.target, env), "applies an in-place augmented assignment to")
            else:
                self.store_target(st.target, env, scope, st, aug=True)
            return env
        if isinstance(st, ast.Delete):
            for t in st.targets:
                if isinstance(t, ast.Subscript):
                    self.flag(scope, st, self.alias(t.value, env), "deletes an item of")
            return env
        if isinstance(st, (ast.For, ast.AsyncFor)):
            self.scan_calls(st.iter, env, scope)
            for _ in range(2):  # second pass: holders / bindings discovered in the body reach its beginning
                benv = dict(env)
                self.bind(st.target, self.elements_alias(st.iter, env), benv)
                out = self.block(st.body, benv, scope, [] if _ else defs)
                env = self.join(env, out)
            return self.join(env, self.block(st.orelse, dict(env), scope, defs))
        if isinstance(st, ast.While):
            self.scan_calls(st.test, env, scope)
            for _ in range(2):
                env = self.join(env, self.block(st.body, dict(env), scope, [] if _ else defs))
            return self.join(env, self.block(st.orelse, dict(env), scope, defs))
        if isinstance(st, ast.If):
            self.scan_calls(st.test, env, scope)
            return self.join(self.block(st.body, dict(env), scope, defs), self.block(st.orelse, dict(env), scope, defs))
        if isinstance(st, (ast.With, ast.AsyncWith)):
            env = dict(env)
            for it in st.items:
                self.scan_calls(it.context_expr, env, scope)
                if it.optional_vars is not None:
                    self.bind(it.optional_vars, (), env)
            return self.block(st.body, env, scope, defs)
        if isinstance(st, ast.Try):
            out = self.block(st.body, dict(env), scope, defs)
            env = self.join(env, out)
            for h in st.handlers:
                env = self.join(env, self.block(h.body, dict(env), scope, defs))
            env = self.join(env, self.block(st.orelse, dict(env), scope, defs))
            return self.block(st.finalbody, env, scope, defs)
        if isinstance(st, ast.Match):
            self.scan_calls(st.subject, env, scope)
            out = dict(env)
            for c in st.cases:
                out = self.join(out, self.block(c.body, dict(env), scope, defs))
            return out
        self.scan_calls(st, env, scope)  # Expr, Return, Raise, Assert, ...
        return env

    def function(self, fn, env, scope):
        env = dict(env)
        a = fn.args
        for x in a.posonlyargs + a.args + a.kwonlyargs + ([a.vararg] if a.vararg else []) + ([a.kwarg] if a.kwarg else []):
            env[x.arg] = set()
        defs = []
        for _ in range(2):
            out = self.block(fn.body, dict(env), scope, [] if _ else defs)
        for d in defs:
            self.function(d, out, f"{scope}.<locals>.{d.name}")

    def run(self):
        env = {g: {g} for g in self.tables}
        defs = []
        for _ in range(2):
            out = self.block(self.module.tree.body, dict(env), "<module>", [] if _ else defs)
        for g in self.tables:  # a module-level rebinding does not hide the table from functions defined before it
            out.setdefault(g, set()).add(g)
        for d in defs:
            self.function(d, out, d.name)
        return self


def check_frozen(ix, rep):
    m = ix.module(IC)
    tables = group_tables(m)
    fz = _Frozen(m, tables).run()
    mutated = {}
    for scope, node, groups, how in fz.findings.values():
        for g in groups:
            mutated.setdefault(g, []).append(scope)
        held = sorted(h for h, gs in fz.holders.items() if set(gs) & set(groups))
        rep.refuted(FROZEN, IC, scope, node,
                    f"`{norm(node)[:90]}` in {scope} {how} an object that may be the module-level table {' / '.join(groups)} itself"
                    + (f" (the mapping{'s' if len(held) > 1 else ''} {', '.join(held)} store{'' if len(held) > 1 else 's'} the groups by reference, "
                       f"without a copy)" if held else "")
                    + ": the table is changed in place, so every later lookup — including the entries of other names that share the same set — sees "
                      "members that the source of the table does not list (e.g. the Y group merged into PAULIX_GROUP through the doubly listed "
                      "'Identity' makes is_commuting(RX, RY) answer True)", tables=groups)
    for g in sorted(tables):
        if g not in mutated:
            rep.proved(FROZEN, f"{IC}:{g}", "never mutated through its name, an alias or a mapping value anywhere in the module")
    for h, gs in sorted(fz.holders.items()):
        if not any(set(gs) & set(groups) for _s, _n, groups, _h in fz.findings.values()):
            rep.proved(FROZEN, f"{IC}:{h}[...]", f"stores {', '.join(sorted(gs))} by reference; its values are only read")
    return len(tables), len(fz.holders)


def check(ctx):
    ix = ctx.index
    rep = Report("C08", "soundness of the commutation lookup table of ops/functions/is_commuting.py: every member of a Pauli group is a function "
                 "of that Pauli letter on each of its wires, and no name is claimed by two groups.")
    rep.rule(RULE, "for each member of PAULIX/PAULIY/PAULIZ_GROUP: letter evidence from (a) the Pauli words of its one-parameter generator(), "
             "(b) the PauliWord literals of its pauli_rep, (c) E4 shape Diagonal/NotDiagonal of compute_matrix, (d) the exact 2x2 pattern "
             "a*1 + b*P; evidence for another letter => refuted, evidence for the group's letter and none against => proved, else unknown; "
             "ctrl / Identity / BasisState are table exceptions with reasons; a name in two groups of the commutation_map loop is refuted "
             "(later group overrides), except Identity")
    rep.rule(FROZEN, "the group tables (module-level set / list displays of string literals) and every alias of them (plain rebinding, loop "
             "variables over a display of groups, values of mappings assigned from such aliases: commutation_map) are never mutated anywhere in "
             "the module: no augmented assignment, no .add/.update/.discard/.remove/.clear/.pop/.append/.extend/..., no item store or delete; "
             "a fresh object (set(g), g.copy(), g | other) is not an alias")
    rep.assume("calls and binary operators return fresh objects; only the module ops/functions/is_commuting.py can reach the tables by reference "
               "(the mapping is hidden in a closure)")
    rep.assume("an operator with generator G and one parameter is exp(i p G); distinct Pauli words are linearly independent, so a generator "
               "term with a non-zero literal coefficient carrying another letter on a wire does not commute with the group's Pauli on that wire")
    rep.assume("E4 reads literal matrices exactly; NotDiagonal means an off-diagonal entry is certainly non-zero")
    rep.assume("every PauliWord literal built by a class's own pauli_rep property enters the PauliSentence with a non-zero coefficient")
    rep.analysed(IC, "_create_commute_function")

    groups, f = groups_of_the_map(ix)
    names = [g for g, _m, _n in groups]
    for g in LETTER_GROUPS:
        if g not in names:
            raise AnalysisError(f"{IC}: {g} is no longer one of the groups the commutation_map loop runs over ({names})")

    # duplicates across the groups of the loop
    seen = {}
    n_dup_checked = 0
    for gname, members, _node in groups:
        for name, node in members:
            n_dup_checked += 1
            if name in seen and seen[name] != gname:
                if name in DUPLICATE_EXCEPTIONS:
                    rep.exempt(RULE, f"{IC}:{gname}[{name}] (duplicate)", f"also in {seen[name]}: {EXCEPTIONS.get(name, '')}")
                else:
                    rep.refuted(RULE, IC, f"{gname}[{name}] duplicate of {seen[name]}[{name}]", node,
                                f"'{name}' is a member of {seen[name]} and of {gname}: commutation_map['{name}'] is overwritten by the later group "
                                f"({gname}), so '{name}' silently stops commuting with the members of {seen[name]} and is reported commuting with "
                                f"those of {gname}", first=seen[name])
            seen.setdefault(name, gname)

    n_members = n_proved = n_exc = 0
    for gname, members, _node in groups:
        letter = LETTER_GROUPS.get(gname)
        if letter is None:
            rep.exempt(RULE, f"{IC}:{gname}", "not a Pauli-letter group (partial overlaps of SWAP-like gates and Hadamard self-commutation are not decided)")
            continue
        own = {"X": "PauliX", "Y": "PauliY", "Z": "PauliZ"}[letter]
        if own not in [n for n, _ in members]:
            rep.unknown(RULE, f"{IC}:{gname}", f"the group does not contain {own}: its letter is taken from its name only")
        for name, node in members:
            n_members += 1
            where = f"{IC}:{gname}[{name}]"
            if name in EXCEPTIONS:
                n_exc += 1
                rep.exempt(RULE, where, EXCEPTIONS[name])
                continue
            cls = F.resolve_op_name(ix, name)
            if cls is None:
                rep.unknown(RULE, where, f"'{name}' does not resolve to an operator class of the package (the entry can never match an op.name)")
                continue
            rep.analysed(cls.module.relpath, cls.name)
            proving, refuting = evidence(ix, cls)
            against = [(src, L, text) for src, L, text in refuting if _conflicts(L, letter)]
            if against:
                rep.refuted(RULE, IC, f"{gname}[{name}]", node,
                            f"'{name}' is listed in {gname} (operators that are functions of Pauli {letter} on each wire, hence commute with each "
                            f"other on overlapping wires) but " + "; and ".join(t for _s, _l, t in against)
                            + f": {name} does not commute with Pauli{letter} on a shared wire, yet is_commuting reports True for it and every "
                            f"member of the group", cls=cls.fq, letter=letter)
                continue
            good = [(src, text) for src, L, text in proving if L <= {letter}]
            if good:
                n_proved += 1
                rep.proved(RULE, where, "; ".join(f"({src}) {text}" for src, text in good))
            else:
                rep.unknown(RULE, where, "no structural evidence for any letter (no one-parameter generator, no pauli_rep literal, matrix shape unknown)")

    n_tables, n_holders = check_frozen(ix, rep)
    rep.floor("module-level group tables (displays of names)", n_tables, 8)
    filled = {norm(st.targets[0].value) for n in ast.walk(f.node) if isinstance(n, ast.For) for st in ast.walk(n)
              if isinstance(st, ast.Assign) and len(st.targets) == 1 and isinstance(st.targets[0], ast.Subscript)}
    # the same mapping built by a comprehension `{name: group for group in groups for name in group}` bound to a local
    filled |= {st.targets[0].id for st in ast.walk(f.node) if isinstance(st, ast.Assign) and len(st.targets) == 1 and isinstance(st.targets[0], ast.Name)
               and isinstance(st.value, ast.DictComp) and len(st.value.generators) == 2}
    rep.floor("mappings filled from the group tables (by reference or by copy)", len(filled), 1)
    rep.note(f"mappings holding group tables by reference: {n_holders}")
    rep.floor("groups in the commutation_map loop", len(groups), 5)
    rep.floor("names checked for double membership", n_dup_checked, 24)
    rep.floor("members of the three Pauli-letter groups", n_members, 19)
    rep.floor("table exceptions met (ctrl, Identity x2, BasisState)", n_exc, 4)
    rep.floor("members proved to be functions of their group's letter", n_proved, 15)
    from .c08_extra import swap

    swap(ctx, rep)
    return rep
