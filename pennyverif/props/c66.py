"""C66 — local decomposition-rule contexts are isolated.

Decides the whole statement reduced to who touches the registries and how.
"""

from __future__ import annotations

import ast

from ..astutil import call_name, local_assignments, method_call
from ..cfg import CFG, walk_shallow
from ..core import AnalysisError, Report, norm

MOD = "pennylane/decomposition/decomposition_rule.py"
MUTATORS = {"append", "extend", "insert", "pop", "remove", "clear", "sort", "reverse", "update",
            "setdefault", "popitem", "add", "discard", "__iadd__"}  # fmt: skip


def _ctxvars(m):
    """module-level ``V = ContextVar(name, default=<Name P>)`` -> {V: P}"""
    out = {}
    for st in m.tree.body:
        tgt = None
        if isinstance(st, ast.Assign) and len(st.targets) == 1 and isinstance(st.targets[0], ast.Name):
            tgt = st.targets[0].id
        elif isinstance(st, ast.AnnAssign) and isinstance(st.target, ast.Name) and st.value is not None:
            tgt = st.target.id
        if tgt is not None:
            v = st.value
            if isinstance(v, ast.Call) and (call_name(v) or "").split(".")[-1] == "ContextVar":
                for kw in v.keywords:
                    if kw.arg == "default" and isinstance(kw.value, ast.Name):
                        out[tgt] = (kw.value.id, st, kw.value)
    return out


# private accessor functions of the registry module whose whole body is `return V.get()`: a call of one is V.get()
# (filled by check() for the tree being analysed)
_ACCESSORS: dict = {}


def _is_var_get(e, var=None):
    """``V.get()`` (or a call of a private accessor that returns exactly that)"""
    r = method_call(e, names={"get"})
    if r and isinstance(r[0], ast.Name) and (var is None or r[0].id == var) and not e.args:
        return r[0].id
    if isinstance(e, ast.Call) and isinstance(e.func, ast.Name) and e.func.id in _ACCESSORS and not e.args and not e.keywords:
        v = _ACCESSORS[e.func.id]
        if var is None or v == var:
            return v
    return None


def check(ctx):
    ix = ctx.index
    rep = Report("C66", "rules added/fixed in a local context are visible only there, vanish on every exit "
                 "(exceptions included) and never reach the global registry or other threads — reduced to "
                 "who touches the registries and how.")
    rep.rule("R-C66-var", "the module-level registries are referenced only as the default= of their ContextVar; "
             "every other access goes through V.get(); V.set/V.reset are called only by the scoping context manager")
    rep.rule("R-C66-scope", "in the context manager every V.set(...) token reaches V.reset(token) on every path to "
             "every exit (normal, exception thrown into the yield), and only non-raising statements lie between "
             "the first set and the protected region")
    rep.rule("R-C66-copy", "the value installed by V.set is a new mapping (with new value collections when values "
             "are mutated in place); public readers return copies, never a reference into the registry")
    rep.assume("ContextVar semantics (per-thread / per-context value, default shared) are the trusted base")
    rep.assume("ContextVar.get/set/reset with a default, dict.copy/items and defaultdict(...) are treated as non-raising")

    m = ix.module(MOD)
    rep.analysed(m.relpath)
    cvars = _ctxvars(m)
    rep.floor("ContextVar-backed registries", len(cvars), 2)
    privates = {p: v for v, (p, _, _) in cvars.items()}

    # ---- R-C66-var: who references the private names / the vars ---------------------------
    n_sites = 0
    for mod in ix.modules.values():
        if not any(p in mod.source for p in privates):
            continue
        # imports of private names from elsewhere
        for st in ast.walk(mod.tree):
            if isinstance(st, ast.ImportFrom):
                for a in st.names:
                    if a.name in privates and mod is not m:
                        rep.refuted("R-C66-var", mod.relpath, "<module>", st,
                                    f"imports the private registry {a.name}; the registry must be reached only through its ContextVar")
        if mod is not m:
            # attribute access module.<private>
            for n in ast.walk(mod.tree):
                if isinstance(n, ast.Attribute) and n.attr in privates:
                    rep.refuted("R-C66-var", mod.relpath, "<module>", n,
                                f"references the private registry {n.attr} from another module")
            continue
    # inside the defining module: each Name reference must be the def or the default=
    allowed = set()
    for v, (p, st, kwval) in cvars.items():
        allowed.add(id(kwval))
    for st in m.tree.body:
        if isinstance(st, ast.Assign):
            for t in st.targets:
                if isinstance(t, ast.Name) and t.id in privates:
                    allowed.add(id(t))
        elif isinstance(st, ast.AnnAssign) and isinstance(st.target, ast.Name) and st.target.id in privates:
            allowed.add(id(st.target))
    funcs = ix.funcs_in(m)
    _ACCESSORS.clear()
    for f in funcs:
        if f.parent is None and f.cls is None and f.name.startswith("_") and not f.node.args.args and not f.node.args.kwonlyargs:
            body = [s_ for s_ in f.node.body if not (isinstance(s_, ast.Expr) and isinstance(s_.value, ast.Constant))]
            if len(body) == 1 and isinstance(body[0], ast.Return) and body[0].value is not None:
                r_ = method_call(body[0].value, names={"get"}) if isinstance(body[0].value, ast.Call) else None
                if r_ and isinstance(r_[0], ast.Name) and r_[0].id in cvars and not body[0].value.args:
                    _ACCESSORS[f.name] = r_[0].id

    def owner(node):
        best = None
        for f in funcs:
            if f.node.lineno <= node.lineno <= (f.node.end_lineno or 0):
                if best is None or f.node.lineno >= best.node.lineno:
                    best = f
        return best.qualname if best else "<module>"

    for n in ast.walk(m.tree):
        if isinstance(n, ast.Name) and n.id in privates:
            n_sites += 1
            if id(n) not in allowed:
                rep.refuted("R-C66-var", m.relpath, owner(n), n,
                            f"direct reference to the registry {n.id} bypasses ContextVar {privates[n.id]} "
                            "(a write here lands in the global default seen by every context)",
                            line=n.lineno)
            else:
                rep.proved("R-C66-var", f"{m.relpath}:{n.lineno} {n.id}", "definition or default= of its ContextVar")

    # accesses through the vars
    setters = {}
    access_sites = 0
    value_mutated = {v: False for v in cvars}
    for f in funcs:
        if f.parent is not None:
            continue
        for n in walk_shallow(f.node):
            if isinstance(n, ast.Call):
                r = method_call(n)
                if r and isinstance(r[0], ast.Name) and r[0].id in cvars:
                    access_sites += 1
                    if r[1] in ("set", "reset"):
                        setters.setdefault(f.qualname, []).append((r[0].id, r[1], n))
                    elif r[1] != "get":
                        rep.unknown("R-C66-var", f"{m.relpath}:{f.qualname}", f"unmodelled ContextVar method {r[1]}")
                # value mutation: V.get()[k].<mutator>(...)
                if r and r[1] in MUTATORS and isinstance(r[0], ast.Subscript):
                    v = _is_var_get(r[0].value)
                    if v in cvars:
                        value_mutated[v] = True
    # other modules touching the vars
    for mod in ix.modules.values():
        if mod is m or not any(v in mod.source for v in cvars):
            continue
        for n in ast.walk(mod.tree):
            if isinstance(n, ast.ImportFrom):
                for a in n.names:
                    if a.name in cvars:
                        rep.refuted("R-C66-var", mod.relpath, "<module>", n,
                                    f"imports ContextVar {a.name}; set/reset outside the scoping context manager would leak")
    rep.floor("registry access sites through the ContextVars", access_sites, 9)

    scope_funcs = sorted(setters)

    def _is_cm(fn_):
        return any(isinstance(d, ast.Name) and d.id == "contextmanager" or (isinstance(d, ast.Attribute) and d.attr == "contextmanager")
                   for d in fn_.node.decorator_list)

    # private helpers whose only callers are @contextmanager functions of this module are part of those scope functions
    helper_mode = {}
    for qn in scope_funcs:
        f = ix.func(MOD, qn)
        if _is_cm(f) or not qn.startswith("_") or "." in qn:
            continue
        callers, foreign = [], False
        for mod in ix.modules.values():
            if qn not in mod.source:
                continue
            for g in mod.functions.values():
                if g is f:
                    continue
                if any(isinstance(c_, ast.Call) and isinstance(c_.func, ast.Name) and c_.func.id == qn for c_ in ast.walk(g.node)):
                    if mod is m:
                        callers.append(g)
                    else:
                        foreign = True
            if mod is not m and any(isinstance(n_, ast.ImportFrom) and any(a_.name == qn for a_ in n_.names) for n_ in ast.walk(mod.tree)):
                foreign = True
        if callers and not foreign and all(_is_cm(g) for g in callers):
            helper_mode[qn] = sorted(g.qualname for g in callers)
    for qn in scope_funcs:
        f = ix.func(MOD, qn)
        if qn in helper_mode:
            rep.proved("R-C66-var", f"{m.relpath}:{qn}", f"private helper called only from the @contextmanager {helper_mode[qn]}")
        elif not any(isinstance(d, ast.Name) and d.id == "contextmanager" or (isinstance(d, ast.Attribute) and d.attr == "contextmanager")
                   for d in f.node.decorator_list):
            for v, kind, call in setters[qn]:
                rep.refuted("R-C66-var", m.relpath, qn, call,
                            f"{v}.{kind}() outside a @contextmanager scope function: the registry swap is not tied to a lexical scope")
        else:
            rep.proved("R-C66-var", f"{m.relpath}:{qn}", "set/reset only inside a @contextmanager")
    if not scope_funcs:
        raise AnalysisError("no function calls ContextVar.set on the registries (local_decomps vanished)")

    # ---- R-C66-scope ---------------------------------------------------------------------
    def nonraising_call(c: ast.Call):
        r = method_call(c)
        if r:
            recv, name = r
            if isinstance(recv, ast.Name) and recv.id in cvars and name in ("get", "set", "reset"):
                return True
            if name in ("copy", "items", "keys", "values") and not c.args and not c.keywords:
                return True
        cn = (call_name(c) or "").split(".")[-1]
        return cn in ("defaultdict", "dict")

    def may_raise(node):
        for n in walk_shallow(node):
            if isinstance(n, (ast.Yield, ast.YieldFrom, ast.Await)):
                return True
            if isinstance(n, ast.Call) and not nonraising_call(n):
                return True
            if isinstance(n, ast.Subscript) and isinstance(n.ctx, ast.Load):
                return True
        return False

    n_sets = 0
    for qn in scope_funcs:
        f = ix.func(MOD, qn)
        rep.analysed(m.relpath, qn)
        cfg = CFG(f.node, may_raise=may_raise)
        for node in cfg.stmts():
            st = node.stmt
            if node.kind != "stmt" or not isinstance(st, (ast.Assign, ast.Expr)):
                continue
            val = st.value
            r = method_call(val) if isinstance(val, ast.Call) else None
            if not (r and isinstance(r[0], ast.Name) and r[0].id in cvars and r[1] == "set"):
                continue
            n_sets += 1
            var = r[0].id
            tok = st.targets[0].id if isinstance(st, ast.Assign) and isinstance(st.targets[0], ast.Name) else None
            if tok is None:
                rep.refuted("R-C66-scope", m.relpath, qn, st, f"token of {var}.set(...) is discarded, the registry can never be restored")
                continue

            def is_reset(nd, var=var, tok=tok):
                s = nd.stmt
                if nd.kind != "stmt" or not isinstance(s, ast.Expr) or not isinstance(s.value, ast.Call):
                    return False
                rr = method_call(s.value)
                return bool(rr and isinstance(rr[0], ast.Name) and rr[0].id == var and rr[1] == "reset"
                            and s.value.args and isinstance(s.value.args[0], ast.Name) and s.value.args[0].id == tok)

            if qn in helper_mode:
                rep.unknown("R-C66-scope", f"{m.relpath}:{qn} {var}.set -> reset({tok})",
                            f"set lives in a helper of {helper_mode[qn]}; the pairing with the reset across the helper boundary is not followed")
            bad = None
            # an exception raised by the set statement itself comes from evaluating its argument (or from set): the registry was not
            # swapped yet, so only what follows the statement on its normal continuation has to reach a reset
            starts = [s_ for s_, lab in cfg.succ[node.id] if lab not in ("exc", "raise")]
            for ex, exname in ((cfg.exit, "normal exit"), (cfg.raise_exit, "exceptional exit")):
                for s0 in starts:
                    if is_reset(cfg.nodes[s0]):
                        continue
                    p = [cfg.nodes[s0]] if s0 == ex else cfg.path_avoiding(s0, ex, is_reset)
                    if p is not None:
                        bad = (exname, [node] + p)
                        break
                if bad:
                    break
            if qn in helper_mode:
                pass
            elif bad:
                exname, p = bad
                via = " -> ".join(f"L{x.line}" for x in p if x.stmt is not None)
                rep.refuted("R-C66-scope", m.relpath, qn, st,
                            f"{var}.set(...) reaches the {exname} without {var}.reset({tok}) (path {via}): rules added in the context stay visible after it",
                            path=via)
            else:
                rep.proved("R-C66-scope", f"{m.relpath}:{qn} {var}.set -> reset({tok})", "reset on every path to both exits")

            # ---- R-C66-copy for this set ------------------------------------------------
            defs = local_assignments(f.node)
            verdict, why = _fresh(val.args[0] if val.args else None, defs, cvars, var, set())
            need_values = value_mutated[var]
            where = f"{m.relpath}:{qn} {var}.set({norm(val.args[0]) if val.args else ''})"
            if verdict is None:
                rep.unknown("R-C66-copy", where, why)
            else:
                cont, vals = verdict
                if not cont:
                    rep.refuted("R-C66-copy", m.relpath, qn, st,
                                f"value installed by {var}.set is the current registry object itself ({why}): additions inside the context mutate the enclosing/global registry")
                elif need_values and not vals:
                    rep.refuted("R-C66-copy", m.relpath, qn, st,
                                f"new mapping shares its value collections with the current registry ({why}) while add_decomps mutates those collections in place")
                else:
                    rep.proved("R-C66-copy", where, why)
    rep.floor("ContextVar.set sites in the scope function", n_sets, 2)

    # ---- R-C66-copy: escapes through return ------------------------------------------------
    n_ret = 0
    for f in funcs:
        if f.parent is not None:
            continue
        if f.name in _ACCESSORS:
            rep.proved("R-C66-var", f"{m.relpath}:{f.qualname}", f"private accessor for {_ACCESSORS[f.name]}.get(): its call sites are judged as registry accesses",
                       nontrivial=False)
            continue
        single = {}
        for s_ in walk_shallow(f.node):
            if isinstance(s_, ast.Assign) and len(s_.targets) == 1 and isinstance(s_.targets[0], ast.Name):
                single.setdefault(s_.targets[0].id, []).append(s_.value)
        single = {k: v_[0] for k, v_ in single.items() if len(v_) == 1}

        def through_locals(e, depth=0):
            """the returned expression with single-definition locals read through (`x = V.get()[k]; return x.copy()`)"""
            if depth > 3:
                return e
            if isinstance(e, ast.Name) and e.id in single:
                return through_locals(single[e.id], depth + 1)
            if isinstance(e, ast.Call) and isinstance(e.func, ast.Attribute) and isinstance(e.func.value, ast.Name) and e.func.value.id in single:
                return ast.Call(func=ast.Attribute(value=through_locals(single[e.func.value.id], depth + 1), attr=e.func.attr, ctx=ast.Load()),
                                args=e.args, keywords=e.keywords)
            if isinstance(e, ast.Subscript) and isinstance(e.value, ast.Name) and e.value.id in single:
                return ast.Subscript(value=through_locals(single[e.value.id], depth + 1), slice=e.slice, ctx=ast.Load())
            return e
        for n in walk_shallow(f.node):
            if isinstance(n, ast.Return) and n.value is not None:
                e = through_locals(n.value)
                v = _is_var_get(e)
                if v in cvars:
                    n_ret += 1
                    rep.refuted("R-C66-copy", m.relpath, f.qualname, n, f"returns the registry mapping of {v} itself")
                    continue
                if isinstance(e, ast.Subscript):
                    v = _is_var_get(e.value)
                    if v in cvars:
                        n_ret += 1
                        if value_mutated[v]:
                            rep.refuted("R-C66-copy", m.relpath, f.qualname, n,
                                        f"returns a reference to a mutable collection stored in {v}: callers could edit the registry of the current context and of the global default")
                        else:
                            rep.proved("R-C66-copy", f"{m.relpath}:{f.qualname}", "returns an element of a registry whose values are never mutated in place")
                    continue
                r = method_call(e) if isinstance(e, ast.Call) else None
                if r and r[1] == "copy" and isinstance(r[0], ast.Subscript) and _is_var_get(r[0].value) in cvars:
                    n_ret += 1
                    rep.proved("R-C66-copy", f"{m.relpath}:{f.qualname}", "returns .copy() of the stored collection")
                elif r and r[1] == "get" and _is_var_get(r[0]) in cvars:
                    n_ret += 1
                    v = _is_var_get(r[0])
                    if value_mutated[v]:
                        rep.refuted("R-C66-copy", m.relpath, f.qualname, n, f"returns a reference to a mutable collection stored in {v}")
                    else:
                        rep.proved("R-C66-copy", f"{m.relpath}:{f.qualname}", "returns a stored rule object (values of this registry are replaced, never mutated)")
    rep.floor("public readers returning registry content", n_ret, 2)

    # ---- R-C66-copy: the value class's own copy()/constructor really produce fresh objects --------
    from ..index import ClassInfo, FuncInfo

    for v, (pname, st, _kw) in cvars.items():
        if not value_mutated[v]:
            continue
        pdef = next((t for t in m.tree.body if (isinstance(t, ast.Assign) and any(isinstance(x, ast.Name) and x.id == pname for x in t.targets))
                     or (isinstance(t, ast.AnnAssign) and isinstance(t.target, ast.Name) and t.target.id == pname and t.value is not None)), None)
        vcls = None
        if pdef is not None and isinstance(pdef.value, ast.Call) and pdef.value.args:
            r = ix.resolve_expr(m, pdef.value.args[0])
            if isinstance(r, ClassInfo):
                vcls = r
        if vcls is None:
            rep.unknown("R-C66-copy", f"{m.relpath}:{pname}", "class of the registry's value collections not resolved")
            continue
        dc, cp = vcls.lookup("copy")
        if not isinstance(cp, FuncInfo):
            rep.proved("R-C66-copy", f"{vcls.module.relpath}:{vcls.name}.copy", "inherits the builtin copy()", nontrivial=False)
        else:
            rep.analysed(cp.module.relpath, cp.qualname)
            rets = [n for n in walk_shallow(cp.node) if isinstance(n, ast.Return)]
            bad = [n for n in rets if n.value is None or (isinstance(n.value, ast.Name) and n.value.id == "self")]
            ctor_ok = all(isinstance(n.value, ast.Call) for n in rets if n not in bad)
            if bad:
                rep.refuted("R-C66-copy", cp.module.relpath, cp.qualname, bad[0],
                            f"{vcls.name}.copy() can return the collection itself: local_decomps then installs (and list_decomps hands out) "
                            "the very object stored in the enclosing/global registry, so additions inside a context leak out")
            elif ctor_ok and rets:
                rep.proved("R-C66-copy", f"{cp.module.relpath}:{cp.qualname}", "every return constructs a new collection")
            else:
                rep.unknown("R-C66-copy", f"{cp.module.relpath}:{cp.qualname}", "return form not modelled")
        # constructor must not adopt the caller's mutable mapping
        ic, init = vcls.lookup("__init__")
        if isinstance(init, FuncInfo):
            rep.analysed(init.module.relpath, init.qualname)
            icfg = CFG(init.node, may_raise=lambda n: False)
            iparams = {a.arg for a in init.node.args.args[1:]}
            for nd in icfg.stmts("stmt"):
                s_ = nd.stmt
                if isinstance(s_, ast.Assign) and any(isinstance(t, ast.Attribute) and isinstance(t.value, ast.Name) and t.value.id == "self" for t in s_.targets) \
                        and isinstance(s_.value, ast.Name) and s_.value.id in iparams:
                    pn = s_.value.id

                    def fresh_rebind(x, pn=pn):
                        a = x.stmt
                        return (x.kind == "stmt" and isinstance(a, ast.Assign) and any(isinstance(t, ast.Name) and t.id == pn for t in a.targets)
                                and isinstance(a.value, (ast.Dict, ast.DictComp, ast.List, ast.ListComp)) or
                                (x.kind == "stmt" and isinstance(a, ast.Assign) and any(isinstance(t, ast.Name) and t.id == pn for t in a.targets)
                                 and isinstance(a.value, ast.Call) and (call_name(a.value) or "").split(".")[-1] in ("dict", "list", "copy", "deepcopy")))

                    if icfg.path_avoiding(icfg.entry, nd.id, fresh_rebind) is not None:
                        rep.refuted("R-C66-copy", init.module.relpath, init.qualname, s_,
                                    f"{vcls.name}.__init__ stores the caller's mapping `{pn}` without copying it: {vcls.name}.copy() then shares its "
                                    "contents with the original, so rules appended in a local context appear in the enclosing registry")
                    else:
                        rep.proved("R-C66-copy", f"{init.module.relpath}:{init.qualname} {norm(s_)}", "parameter rebound to a fresh object on every path")
                elif isinstance(s_, ast.Assign) and any(isinstance(t, ast.Attribute) and isinstance(t.value, ast.Name) and t.value.id == "self" for t in s_.targets):
                    r2 = method_call(s_.value) if isinstance(s_.value, ast.Call) else None
                    if r2 and r2[1] == "copy":
                        rep.proved("R-C66-copy", f"{init.module.relpath}:{init.qualname} {norm(s_)}", "stores a copy of the argument")
    rep.extra["registries"] = {v: p for v, (p, _, _) in cvars.items()}
    rep.extra["values_mutated_in_place"] = value_mutated
    from .c66_extra import check_extra
    check_extra(ctx, rep)
    return rep


def _fresh(e, defs, cvars, var, seen):
    """-> ((container_fresh, values_fresh), why) or (None, why) when unknown."""
    if e is None:
        return None, "no argument"
    if isinstance(e, ast.Name):
        if e.id in seen:
            return None, "cyclic"
        ds = defs.get(e.id, [])
        if len(ds) != 1 or ds[0][1] is None:
            return None, f"{e.id} has {len(ds)} bindings"
        return _fresh(ds[0][1], defs, cvars, var, seen | {e.id})
    if _is_var_get(e) in cvars:
        return (False, False), f"{norm(e)} is the live registry"
    if isinstance(e, ast.Call):
        r = method_call(e)
        if r and r[1] == "copy" and not e.args:
            inner, why = _fresh(r[0], defs, cvars, var, seen)
            if inner is None:
                return None, why
            return (True, inner[1]), f"shallow copy of ({why})"
        cn = (call_name(e) or "").split(".")[-1]
        if cn in ("defaultdict", "dict", "OrderedDict"):
            srcs = [a for a in e.args if not (isinstance(a, ast.Name) and a.id[:1].isupper())]
            if cn == "defaultdict" and e.args:
                srcs = list(e.args[1:])
            if not srcs:
                return (True, True), "new empty mapping"
            inner, why = _fresh(srcs[0], defs, cvars, var, seen)
            if inner is None:
                return None, why
            return (True, inner[1]), f"new {cn} over ({why})"
        if cn == "deepcopy":
            return (True, True), "deepcopy"
        return None, f"unmodelled call {norm(e)[:60]}"
    if isinstance(e, ast.DictComp):
        v = e.value
        vr = method_call(v) if isinstance(v, ast.Call) else None
        vals_fresh = bool(vr and vr[1] == "copy") or (
            isinstance(v, ast.Call) and (call_name(v) or "").split(".")[-1] in ("list", "DecompCollection", "deepcopy", "copy")
        )
        return (True, vals_fresh), f"dict comprehension with values {norm(v)}"
    if isinstance(e, ast.Dict):
        return (True, True), "dict display"
    return None, f"unmodelled expression {norm(e)[:60]}"
