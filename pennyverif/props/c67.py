"""C67 — OpenQASM export / import: the gate-name translation tables agree with the standard (E5).

R-C67-table   every entry of ``io/to_openqasm.py:OPENQASM_GATES`` names a gate that exists in the library the
              exporter's header includes, with the arities of the PennyLane class, and is the *right* gate;
              the import tables of ``io/qasm_interpreter.py`` are read the same way against ``stdgates.inc``.
R-C67-stop    what the exporter emits, where its decomposition stops and its ``target_gates`` are the key
              set of one and the same table.
"""

from __future__ import annotations

import ast

from .. import tables as T
from ..astutil import local_assignments
from ..cfg import walk_shallow
from ..core import AnalysisError, Report, norm
from ..index import ClassInfo, FuncInfo

EXP = "pennylane/io/to_openqasm.py"
IMP = "pennylane/io/qasm_interpreter.py"
EXPORT_TABLE = "OPENQASM_GATES"
IMPORT_TABLES = ("NON_PARAMETERIZED_GATES", "PARAMETERIZED_GATES")


# ---------------------------------------------------------------------------------------------
def _header_of(f: FuncInfo):
    """(version, include) announced by the string literals the serializer starts the program with."""
    version = include = None
    for n in ast.walk(f.node):
        if isinstance(n, ast.Constant) and isinstance(n.value, str):
            s = n.value.strip()
            if s.startswith("OPENQASM ") and s.endswith(";") and "\n" not in s:
                version = s[len("OPENQASM "):-1].strip()
            elif s.startswith("include ") and s.endswith(";") and "\n" not in s:
                include = s[len("include "):-1].strip().strip('"')
    return version, include


def _check_export_entry(ix, rep, tab, e):
    """One ``PL name -> qasm name`` entry against qelib1.inc.  -> None"""
    where = f"{tab.relpath}:{tab.construct(e)} -> {e.value!r}"
    if not isinstance(e.key, str) or not isinstance(e.value, str):
        rep.unknown("R-C67-table", f"{tab.relpath}:{tab.name} {e.text()}", "entry is not a literal str -> str pair")
        return
    problems, proved, unknowns = [], [], []
    sig = T.QELIB1.get(e.value)
    if sig is None and e.value in T.QASM2_BUILTIN_GATES:
        sig = (*T.QASM2_BUILTIN_GATES[e.value], "built-in")
    if sig is None:
        near = "an OpenQASM 3 built-in" if e.value in T.QASM3_BUILTIN_GATES else ("a stdgates.inc (OpenQASM 3) gate" if e.value in T.STDGATES else "not a gate of either standard library")
        problems.append(f"`{e.value}` is neither a gate of qelib1.inc nor an OpenQASM 2.0 built-in (U, CX) — it is {near}; "
                        f"the exported program `OPENQASM 2.0; include \"qelib1.inc\";` uses an undefined gate")
    else:
        proved.append(f"{e.value}({sig[0]} params) on {sig[1]} qubit(s) [{sig[2]}]")
    cls, adj = T.pl_class_for_name(ix, e.key)
    if cls is None:
        unknowns.append(f"PennyLane operator named {e.key!r} not resolved statically: arities unverified")
    elif sig is not None:
        npar, nw = T.pl_arity(cls)
        if npar is None:
            unknowns.append(f"num_params of {cls.name} not a static constant")
        elif npar != sig[0]:
            problems.append(f"{e.key}.num_params = {npar} but `{e.value}` takes {sig[0]} parameter(s): the exporter prints every parameter of the operator")
        if nw is None:
            unknowns.append(f"num_wires of {cls.name} not declared")
        elif nw is T.ANY:
            problems.append(f"{e.key}.num_wires is None (any number of wires) but `{e.value}` is a {sig[1]}-qubit gate: the exporter prints every wire of the "
                            f"operator (`{e.value} q[0],q[1];` for a two-wire {e.key})")
        elif nw != sig[1]:
            problems.append(f"{e.key}.num_wires = {nw} but `{e.value}` acts on {sig[1]} qubit(s)")
    want = T.PL_TO_QASM2.get(e.key)
    if want is None:
        unknowns.append(f"{e.key!r} is not in the checker's semantic reference: which gate it should be is unverified")
    elif e.value not in want:
        problems.append(f"{e.key} is `{'` / `'.join(sorted(want))}` in qelib1.inc, not `{e.value}`")
    if problems:
        rep.refuted("R-C67-table", tab.relpath, tab.construct(e), e.text(), "; ".join(problems), line=getattr(e.value_node, "lineno", 0))
    elif unknowns:
        rep.unknown("R-C67-table", where, "; ".join(unknowns))
    else:
        rep.proved("R-C67-table", where, "; ".join(proved) + f" = {e.key}")


def _lambda_arity(lam: ast.Lambda):
    """(#gate parameters, #qubits) of ``lambda a, b, …, wires: … wires[0] … wires[1]`` or None."""
    a = lam.args
    if a.vararg or a.kwarg or a.posonlyargs or a.defaults:
        return None
    names = [x.arg for x in a.args] + [x.arg for x in a.kwonlyargs]
    if "wires" not in names:
        return None
    idx = set()
    for n in ast.walk(lam.body):
        if isinstance(n, ast.Subscript) and isinstance(n.value, ast.Name) and n.value.id == "wires":
            ok, v = T.literal(n.slice)
            if not ok or not isinstance(v, int) or v < 0:
                return None
            idx.add(v)
    bare = sum(1 for n in ast.walk(lam.body) if isinstance(n, ast.Name) and n.id == "wires")
    if not idx or bare != sum(1 for n in ast.walk(lam.body) if isinstance(n, ast.Subscript) and isinstance(n.value, ast.Name) and n.value.id == "wires"):
        return None
    return len(names) - 1, max(idx) + 1


def _check_import_entry(ix, rep, tab, e, parameterized):
    m = tab.module
    where = f"{tab.relpath}:{tab.construct(e)} -> {norm(e.value_node)[:50]}"
    if not isinstance(e.key, str):
        rep.unknown("R-C67-table", f"{tab.relpath}:{tab.name} {e.text()[:60]}", "key is not a string literal")
        return
    cands = T.qasm3_lookup(e.key)
    if not cands:
        rep.unknown("R-C67-table", where, f"`{e.key.lower()}` is not a gate of stdgates.inc: unverified extension of the importer")
        return
    sigs = set(cands.values())
    problems, unknowns = [], []
    if isinstance(e.value_node, ast.Lambda):
        ar = _lambda_arity(e.value_node)
        if ar is None:
            unknowns.append("lambda shape not modelled")
        elif ar not in sigs:
            problems.append(f"lambda takes {ar[0]} parameter(s) and indexes {ar[1]} wire(s) but `{e.key.lower()}` is "
                            + " / ".join(f"({s[0]} params, {s[1]} qubits)" for s in sorted(sigs)))
        else:
            unknowns.append(f"arity {ar} agrees with stdgates.inc; the operator built by the lambda is not compared")
    else:
        name, cls = T.pl_name_of_expr(ix, m, e.value_node)
        if name is None:
            unknowns.append("value does not resolve to an operator class / adjoint(<class>)")
        else:
            npar, nw = T.pl_arity(cls)
            for s in sorted(sigs):
                if npar is not None and npar != s[0]:
                    problems.append(f"`{e.key.lower()}` takes {s[0]} parameter(s), {name}.num_params = {npar}")
                if isinstance(nw, int) and nw != s[1]:
                    problems.append(f"`{e.key.lower()}` acts on {s[1]} qubit(s), {name}.num_wires = {nw}")
            want = set()
            known = False
            for k in cands:
                if k in T.QASM3_TO_PL:
                    known = True
                    want |= T.QASM3_TO_PL[k]
            if not known:
                unknowns.append(f"`{e.key.lower()}` is not in the checker's semantic reference")
            elif name not in want:
                problems.append(f"`{e.key.lower()}` of stdgates.inc is {' / '.join(sorted(want))}, not {name}")
            if parameterized and all(s[0] == 0 for s in sigs):
                problems.append(f"`{e.key.lower()}` takes no parameter but sits in {tab.name}: the interpreter raises TypeError for the (valid) argument-less call")
    if problems:
        rep.refuted("R-C67-table", tab.relpath, tab.construct(e), e.text(), "; ".join(dict.fromkeys(problems)), line=getattr(e.value_node, "lineno", 0))
    elif unknowns:
        rep.unknown("R-C67-table", where, "; ".join(unknowns))
    else:
        rep.proved("R-C67-table", where, f"stdgates.inc {sorted(cands)} {sorted(sigs)}")


# ---------------------------------------------------------------------------------------------
def _dispatch_overloads(ix, m, generic: FuncInfo):
    """Classes for which ``@<generic>.register`` overloads exist (type of the first parameter)."""
    out = {}
    for f in ix.funcs_in(m):
        for d in f.node.decorator_list:
            tgt = d.func if isinstance(d, ast.Call) else d
            if isinstance(tgt, ast.Attribute) and tgt.attr == "register" and isinstance(tgt.value, ast.Name) and tgt.value.id == generic.name:
                ann = None
                if isinstance(d, ast.Call) and d.args:
                    ann = d.args[0]
                elif f.node.args.args and f.node.args.args[0].annotation is not None:
                    ann = f.node.args.args[0].annotation
                r = ix.resolve_expr(m, ann) if ann is not None else None
                if isinstance(r, ClassInfo):
                    out[r] = f
    return out


def _membership_tables(ix, m, test, param):
    """Split a boolean stopping expression into its disjuncts -> (tables tested with ``<param>.name in T``,
    classes tested with isinstance(param, …), unmodelled disjuncts)."""
    parts = test.values if isinstance(test, ast.BoolOp) and isinstance(test.op, ast.Or) else [test]
    tabs, classes, other = [], [], []
    for p in parts:
        if isinstance(p, ast.Compare) and len(p.ops) == 1 and isinstance(p.ops[0], ast.In) and norm(p.left) == f"{param}.name":
            ks = T.key_set_expr(ix, m, p.comparators[0])
            if ks is not None and not ks[1]:
                tabs += ks[0]
                continue
            other.append(p)
        elif isinstance(p, ast.Call) and isinstance(p.func, ast.Name) and p.func.id == "isinstance" and len(p.args) == 2 and norm(p.args[0]) == param:
            cl = p.args[1].elts if isinstance(p.args[1], ast.Tuple) else [p.args[1]]
            rs = [ix.resolve_expr(m, c) for c in cl]
            if all(isinstance(r, ClassInfo) for r in rs):
                classes += rs
            else:
                other.append(p)
        else:
            other.append(p)
    return tabs, classes, other


def _check_stop(ix, rep, m, table):
    R = "R-C67-stop"
    emit = ix.func(EXP, "_obj_string")
    tape_fn = ix.func(EXP, "_tape_openqasm")
    rep.analysed(m.relpath, emit.qualname)
    rep.analysed(m.relpath, tape_fn.qualname)

    # (1) emission: the gate word comes from a subscript lookup  T[<op>.name]  (KeyError -> error), in T == table
    opparam = emit.node.args.args[0].arg if emit.node.args.args else "op"
    lookups = []
    for n in walk_shallow(emit.node):
        if isinstance(n, ast.Subscript) and isinstance(n.ctx, ast.Load) and norm(n.slice) == f"{opparam}.name":
            lookups.append(("sub", n, T.resolve_table_expr(ix, m, n.value)))
        elif isinstance(n, ast.Call) and isinstance(n.func, ast.Attribute) and n.func.attr == "get" and n.args and norm(n.args[0]) == f"{opparam}.name":
            lookups.append(("get", n, T.resolve_table_expr(ix, m, n.func.value)))
    good = [l for l in lookups if T.same_table(l[2], table)]
    if not lookups:
        rep.unknown(R, f"{m.relpath}:{emit.qualname}", "no table lookup keyed by the operator's name found")
    for kind, n, t in lookups:
        st = n
        if t is None:
            rep.unknown(R, f"{m.relpath}:{emit.qualname} {norm(n)}", "looked-up object is not a literal table")
        elif not T.same_table(t, table):
            rep.refuted(R, m.relpath, emit.qualname, norm(st), f"the emitted gate word is looked up in `{t.name}`, not in `{table.name}` which is the table checked against qelib1.inc", line=n.lineno)
        elif kind == "get" and (len(n.args) > 1 or n.keywords):
            rep.refuted(R, m.relpath, emit.qualname, norm(st), f"`{table.name}.get(name, default)` emits a gate word for operators outside the table instead of raising", line=n.lineno)
        else:
            rep.proved(R, f"{m.relpath}:{emit.qualname} {norm(n)}", f"gate word = {table.name}[{opparam}.name]; a missing key raises")
    overloads = _dispatch_overloads(ix, m, emit)
    handled = {c.name for c in overloads}

    # (2)/(3) the decomposition call
    defs = local_assignments(tape_fn.node)
    calls = []
    for n in walk_shallow(tape_fn.node):
        if isinstance(n, ast.Call):
            r = ix.resolve_expr(m, n.func)
            if isinstance(r, FuncInfo) and r.name == "decompose":
                calls.append(n)
    rep.floor("decompose(...) calls in the serializer", len(calls), 1)
    for call in calls:
        kw = {k.arg: k.value for k in call.keywords if k.arg}
        # ---- stopping condition
        sc = kw.get("stopping_condition", call.args[1] if len(call.args) > 1 else None)
        scf = None
        if isinstance(sc, ast.Name):
            scf = next((f for f in ix.funcs_in(m) if f.name == sc.id and (f.parent is tape_fn or (f.parent is None and f.cls is None))), None)
        if isinstance(sc, ast.Lambda):
            param, body, scname = (sc.args.args[0].arg if sc.args.args else None), sc.body, "<lambda>"
        elif scf is not None:
            rets = [x for x in walk_shallow(scf.node) if isinstance(x, ast.Return)]
            stmts = [s for s in scf.node.body if not (isinstance(s, ast.Expr) and isinstance(s.value, ast.Constant))]
            param = scf.node.args.args[0].arg if scf.node.args.args else None
            body = rets[0].value if len(rets) == 1 and len(stmts) == 1 else None
            scname = scf.qualname
            rep.analysed(m.relpath, scname)
        else:
            param = body = None
            scname = norm(sc) if sc is not None else "<missing>"
        if param is None or body is None:
            rep.unknown(R, f"{m.relpath}:{tape_fn.qualname} stopping_condition={scname}", "stopping condition is not a single-return predicate")
        else:
            tabs, classes, other = _membership_tables(ix, m, body, param)
            where = f"{m.relpath}:{scname}"
            if other:
                ok, v = T.literal(other[0]) if len(other) == 1 and not tabs else (False, None)
                if ok and v:
                    rep.refuted(R, m.relpath, scname, f"return {norm(body)}", f"the stopping condition accepts every operator: operators outside `{table.name}` reach the emitter", line=body.lineno)
                else:
                    rep.unknown(R, where, f"disjunct `{norm(other[0])[:60]}` not modelled")
            elif not tabs:
                rep.refuted(R, m.relpath, scname, f"return {norm(body)}", f"the stopping condition does not test membership in `{table.name}`", line=body.lineno)
            else:
                wrong = [t for t in tabs if not T.same_table(t, table)]
                stray = [c.name for c in classes if c not in overloads]
                if wrong:
                    rep.refuted(R, m.relpath, scname, f"return {norm(body)}",
                                f"decomposition stops at the names of `{wrong[0].name}` while the emitter writes from `{table.name}`: the two key sets differ by "
                                f"{sorted(set(map(str, wrong[0].keys())) ^ set(map(str, table.keys())))[:6]}", line=body.lineno)
                elif stray:
                    rep.refuted(R, m.relpath, scname, f"return {norm(body)}", f"stops at {stray} for which the emitter has neither a table entry nor a registered overload", line=body.lineno)
                else:
                    rep.proved(R, where, f"`{param}.name in {table.name}`" + (f" or isinstance of {sorted(c.name for c in classes)} (registered overloads)" if classes else ""))
        # ---- target_gates
        tg = kw.get("target_gates")
        where = f"{m.relpath}:{tape_fn.qualname} target_gates"
        if tg is None:
            rep.unknown(R, where, "decompose called without target_gates")
        else:
            ks = T.key_set_expr(ix, m, tg, defs)
            if ks is None:
                rep.unknown(R, where, f"`{norm(tg)[:70]}` is not a union of table key sets and string literals")
            else:
                tabs, extras = ks
                wrong = [t for t in tabs if not T.same_table(t, table)]
                stray = sorted(x for x in extras if x not in handled and table.get(x) is None)
                if wrong or not tabs:
                    rep.refuted(R, m.relpath, tape_fn.qualname, f"target_gates={norm(tg)}",
                                f"target_gates is built from {[t.name for t in tabs] or 'no table'}, not from the keys of `{table.name}` that the emitter and the stopping condition use", line=tg.lineno)
                elif stray:
                    rep.refuted(R, m.relpath, tape_fn.qualname, f"target_gates={norm(tg)}",
                                f"target gate(s) {stray} have neither an entry in `{table.name}` nor a registered emitter overload ({sorted(handled)})", line=tg.lineno)
                else:
                    rep.proved(R, where, f"keys({table.name})" + (f" ∪ {sorted(extras)} (registered overloads)" if extras else ""))
    rep.extra["emitter_overloads"] = sorted(handled)


def check(ctx):
    ix = ctx.index
    rep = Report("C67", "the gate-name translation tables of the OpenQASM exporter/importer agree with the standard libraries "
                 "(name exists, same number of parameters and qubits, same gate), and the exporter stops decomposing / emits on one table.")
    rep.rule("R-C67-table", "every `PennyLane name -> qasm name` of OPENQASM_GATES names a gate of the library announced by the exporter's header "
             "(qelib1.inc or a built-in) whose (#params, #qubits) equal num_params/num_wires of the PennyLane class (read from the class "
             "definitions) and which is the same gate according to the checker's semantic reference; NON_PARAMETERIZED_GATES / "
             "PARAMETERIZED_GATES of the OpenQASM 3 interpreter likewise against stdgates.inc")
    rep.rule("R-C67-stop", "the emitted gate word is OPENQASM_GATES[op.name] (missing key raises); the decomposition's stopping condition is "
             "membership in that same table (or an operator with a registered emitter overload) and target_gates is its key set")
    rep.assume("qelib1.inc (OpenQASM 2.0 paper + the Qiskit/openqasm-repository additions) and stdgates.inc as transcribed in pennyverif/tables.py")
    rep.assume("`Adjoint(X)` is the name of the adjoint of X and has X's arities; an operator's instances are named as tables.pl_instance_name reads it")
    rep.assume("parameter formatting/precision and register layout are runtime strings and are not checked")

    m = ix.module(EXP)
    rep.analysed(m.relpath)
    tab = T.extract_table(ix, m, EXPORT_TABLE)
    if tab.kind != "dict":
        raise AnalysisError(f"{EXPORT_TABLE} is no longer a dict display")
    tape_fn = ix.func(EXP, "_tape_openqasm")
    version, include = _header_of(tape_fn)
    rep.extra["export_header"] = {"version": version, "include": include}
    entries = tab.effective()
    rep.floor(f"entries of {EXPORT_TABLE}", len(entries), 25)
    for why in tab.opaque:
        rep.unknown("R-C67-table", f"{m.relpath}:{tab.name}", f"table is {why}: further entries are not visible")
    for e in tab.shadowed():
        rep.exempt("R-C67-table", f"{m.relpath}:{tab.construct(e)} {e.text()}", "shadowed by a later entry with the same key")
    if version is None or include is None:
        raise AnalysisError("the serializer no longer announces `OPENQASM <v>;` / `include \"...\";` as string literals")
    if not version.startswith("2") or include != "qelib1.inc":
        for e in entries:
            rep.unknown("R-C67-table", f"{m.relpath}:{tab.construct(e)}", f"header is OPENQASM {version} / {include}: the qelib1.inc reference does not apply")
    else:
        for e in entries:
            _check_export_entry(ix, rep, tab, e)

    # ---- OpenQASM 3 interpreter tables ----------------------------------------------------
    im = ix.module(IMP)
    rep.analysed(im.relpath)
    n_imp = 0
    for name in IMPORT_TABLES:
        t = T.extract_table(ix, im, name)
        for why in t.opaque:
            rep.unknown("R-C67-table", f"{im.relpath}:{t.name}", f"table is {why}")
        for e in t.effective():
            n_imp += 1
            _check_import_entry(ix, rep, t, e, parameterized=name.startswith("PARAM"))
    rep.floor("entries of the OpenQASM 3 interpreter's gate tables", n_imp, 31)

    _check_stop(ix, rep, m, tab)
    from .c67_extra import extra, shadow

    extra(ctx, rep)
    shadow(ctx, rep)
    return rep
