"""R-C03-adjrep — the Pauli representation of an adjoint is the base's with conjugated coefficients.

Pauli words are Hermitian, so (sum_k c_k P_k)^dagger = sum_k conj(c_k) P_k.  Operator arithmetic multiplies and adds
operators through their Pauli representation when one is present, so an adjoint wrapper that stores the base's sentence
without conjugating makes `prod(adjoint(1j*X), ...)`, `simplify`, `sum` … disagree with matrix arithmetic for every base
with a non-real coefficient.  Structural clause decided: every non-None value stored in `self._pauli_rep` by an Adjoint
wrapper class is computed through a conjugation (a call named conj/conjugate/adjoint) of the base's coefficients.
"""

from __future__ import annotations

import ast

from ..cfg import walk_shallow
from ..core import norm

RULE = "R-C03-adjrep"
CONJ = ("conj", "conjugate", "adjoint", "dagger")


def adjrep(ctx, rep):
    ix = ctx.index
    rep.rule(RULE, "in every Adjoint wrapper class (Adjoint, Adjoint2, …: classes named Adjoint* deriving from SymbolicOp / Operator2) each "
             "non-None store to `self._pauli_rep` derives from the base's Pauli sentence through a conjugation of the coefficients")
    n = 0
    for c in ix.classes:
        rel = c.module.relpath
        if not rel.startswith("pennylane/ops/op_math/") or not c.name.startswith("Adjoint"):
            continue
        for name, fl in c.methods.items():
            for f in fl:
                stores = [s for s in walk_shallow(f.node) if isinstance(s, ast.Assign) and any(norm(t) == "self._pauli_rep" for t in s.targets)]
                if not stores:
                    continue
                rep.analysed(rel, f.qualname)
                defs = {}
                for s in walk_shallow(f.node):
                    if isinstance(s, ast.Assign) and len(s.targets) == 1 and isinstance(s.targets[0], ast.Name):
                        defs.setdefault(s.targets[0].id, []).append(s.value)
                    if isinstance(s, ast.NamedExpr):
                        defs.setdefault(s.target.id, []).append(s.value)

                def closure(e, seen=None):
                    seen = seen if seen is not None else set()
                    out = [e]
                    for x in ast.walk(e):
                        if isinstance(x, ast.Name) and x.id in defs and x.id not in seen:
                            seen.add(x.id)
                            for d in defs[x.id]:
                                out += closure(d, seen)
                    return out
                for s in stores:
                    if isinstance(s.value, ast.Constant) and s.value.value is None:
                        continue
                    n += 1
                    exprs = closure(s.value)
                    reads_base = any("pauli_rep" in norm(x) and "base" in norm(x) for e in exprs for x in ast.walk(e) if isinstance(x, ast.Attribute))
                    conj = any(isinstance(x, ast.Call) and norm(x.func).split(".")[-1] in CONJ for e in exprs for x in ast.walk(e))
                    where = f"{rel}:{f.qualname} `{norm(s)[:70]}`"
                    if conj:
                        rep.proved(RULE, where, "coefficients of the base's Pauli sentence are conjugated")
                    elif reads_base:
                        rep.refuted(RULE, rel, f.qualname, s,
                                    "the adjoint's Pauli representation is taken from the base without conjugating the coefficients: for a base with a "
                                    "non-real coefficient (1j*X, X@Y written as 1j*Z, …) every arithmetic operation that goes through the Pauli "
                                    "representation (prod, sum, s_prod, simplify) disagrees with the matrix of the adjoint", line=s.lineno)
                    else:
                        rep.unknown(RULE, where, "source of the stored representation not recognised")
    rep.floor("Pauli-representation stores of Adjoint wrappers", n, 2)
