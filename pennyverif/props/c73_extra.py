"""C73 (second part) — per-circuit counts really are per circuit, and every device owns its tracker.

R-C73-percircuit  in the execute wrapper, the executions/shots handed to tracker.update in the loop over the batch are
                  bound, in the same iteration and on every path to the update, from get_num_shots_and_executions(<this
                  circuit>).  A path on which the counts come from somewhere else (a memo keyed on part of the circuit)
                  is refuted when the key leaves out a field the counting function reads from the tape.
R-C73-instance    Device declares a class-level `tracker`; Device.__init__ replaces it with a fresh Tracker() on every
                  path, and every Device subclass constructor in pennylane/devices reaches Device.__init__ (or assigns
                  its own tracker): otherwise all instances share one tracker and a call on one device is recorded on all.
"""

from __future__ import annotations

import ast

from ..astutil import call_name
from ..cfg import CFG, walk_shallow
from ..core import norm
from ..index import ClassInfo, FuncInfo

MOD = "pennylane/devices/modifiers/simulator_tracking.py"
SAMP = "pennylane/devices/qubit/sampling.py"
DEV = "pennylane/devices/device_api.py"
COUNT = "get_num_shots_and_executions"


def _tape_fields_read(f: FuncInfo):
    p = f.node.args.args[0].arg
    return {n.attr for n in ast.walk(f.node) if isinstance(n, ast.Attribute) and isinstance(n.value, ast.Name) and n.value.id == p}


def check_extra(ctx, rep):
    ix = ctx.index
    rep.rule("R-C73-percircuit", "in the execute wrapper every path from the head of the per-circuit loop to a tracker.update(executions=…) binds the "
             "counts from get_num_shots_and_executions(<loop circuit>) in that iteration; a skipping path whose memo key omits a tape field the "
             "counting function reads is a violation")
    m = ix.module(MOD)
    wrapper = ix.func(MOD, "_track_execute")
    inner = [n for n in wrapper.node.body if isinstance(n, ast.FunctionDef)]
    counter = ix.func(SAMP, COUNT)
    fields = _tape_fields_read(counter)
    rep.analysed(SAMP, counter.qualname)
    n_ob = 0
    for fn in inner:
        rep.analysed(MOD, f"_track_execute.{fn.name}")
        for loop in [n for n in walk_shallow(fn) if isinstance(n, ast.For)]:
            def _has_executions(call):
                if any(kw.arg == "executions" for kw in call.keywords):
                    return True
                for kw in call.keywords:  # update(**name) with name = {"executions": …, …} / dict(executions=…)
                    if kw.arg is None and isinstance(kw.value, ast.Name):
                        for st_ in ast.walk(loop):
                            if isinstance(st_, ast.Assign) and any(isinstance(t_, ast.Name) and t_.id == kw.value.id for t_ in st_.targets):
                                v_ = st_.value
                                if isinstance(v_, ast.Dict) and any(isinstance(k_, ast.Constant) and k_.value == "executions" for k_ in v_.keys):
                                    return True
                                if isinstance(v_, ast.Call) and call_name(v_) == "dict" and any(k2.arg == "executions" for k2 in v_.keywords):
                                    return True
                return False
            ups = [n for n in ast.walk(loop) if isinstance(n, ast.Call) and isinstance(n.func, ast.Attribute) and n.func.attr == "update"
                   and "tracker" in norm(n.func.value) and _has_executions(n)]
            if not ups:
                # the per-circuit body moved into a helper of this module that receives the loop circuit: not followed
                tn_ = {x.id for x in ast.walk(loop.target) if isinstance(x, ast.Name)}
                for c_ in ast.walk(loop):
                    if isinstance(c_, ast.Call) and isinstance(c_.func, ast.Name) and c_.func.id in m.functions and any(
                            isinstance(a_, ast.Name) and a_.id in tn_ for a_ in c_.args):
                        g_ = m.functions[c_.func.id]
                        if any(isinstance(u_, ast.Call) and isinstance(u_.func, ast.Attribute) and u_.func.attr == "update" and any(
                                k_.arg == "executions" for k_ in u_.keywords) for u_ in ast.walk(g_.node)):
                            n_ob += 1
                            if any(COUNT in norm(n) for n in ast.walk(g_.node) if isinstance(n, ast.Call)):
                                rep.unknown("R-C73-percircuit", f"{MOD}:_track_execute.{fn.name} -> {g_.qualname}",
                                            "the per-circuit update lives in a helper called with the loop circuit; paths inside it are not followed")
                            else:
                                rep.unknown("R-C73-percircuit", f"{MOD}:_track_execute.{fn.name} -> {g_.qualname}",
                                            f"per-circuit helper does not call {COUNT} itself; not decided")
                continue
            # loop variables bound to circuits: names in the target whose attributes are read in the body (c.shots, c.specs)
            tnames = [x.id for x in ast.walk(loop.target) if isinstance(x, ast.Name)]
            cfg = CFG(fn, body=loop.body)

            def direct_count(nd, tnames=tnames):
                s = nd.stmt
                if nd.kind != "stmt" or not isinstance(s, ast.Assign) or not isinstance(s.value, ast.Call):
                    return False
                if (call_name(s.value) or "").split(".")[-1] != COUNT or len(s.value.args) != 1:
                    return False
                a = s.value.args[0]
                return isinstance(a, ast.Name) and a.id in tnames
            for up in ups:
                n_ob += 1
                where = f"{MOD}:_track_execute.{fn.name} `{norm(up)[:60]}`"
                unodes = [nd for nd in cfg.stmts() if nd.stmt is not None and any(x is up for x in ast.walk(nd.stmt)) and nd.kind == "stmt"]
                if not unodes:
                    rep.unknown("R-C73-percircuit", where, "update statement not located in the loop body graph")
                    continue
                skip = None
                for un in unodes:
                    p = cfg.path_avoiding(cfg.entry, un.id, direct_count)
                    if p is not None:
                        skip = p
                if skip is None:
                    rep.proved("R-C73-percircuit", where, f"counts bound from {COUNT}(<loop circuit>) on every path of the iteration")
                    continue
                # a skipping path: look for the memo test on it
                tests = [nd.stmt.test for nd in skip if nd.stmt is not None and isinstance(nd.stmt, ast.If)]
                keyattrs, whole = set(), False
                keynames = set()
                for t in tests:
                    for x in ast.walk(t):
                        if isinstance(x, ast.Name):
                            keynames.add(x.id)
                # expand local names used in the tests by their definitions in the loop body
                defs = {}
                for n in ast.walk(loop):
                    if isinstance(n, ast.Assign) and len(n.targets) == 1 and isinstance(n.targets[0], ast.Name):
                        defs[n.targets[0].id] = n.value
                exprs = list(tests) + [defs[k] for k in keynames if k in defs]
                for e in exprs:
                    for x in ast.walk(e):
                        if isinstance(x, ast.Attribute) and isinstance(x.value, ast.Name) and x.value.id in tnames:
                            keyattrs.add(x.attr)
                    names_plain = {id(x) for x in ast.walk(e) if isinstance(x, ast.Name) and x.id in tnames}
                    attr_bases = {id(x.value) for x in ast.walk(e) if isinstance(x, ast.Attribute)}
                    if names_plain - attr_bases:
                        whole = True
                missing = sorted(fields - keyattrs)
                if any(COUNT in norm(n) for n in ast.walk(loop) if isinstance(n, ast.Call)) and not whole and missing and tests:
                    rep.refuted("R-C73-percircuit", MOD, f"_track_execute.{fn.name}", up,
                                f"on the path where `{norm(tests[-1])[:60]}` skips the call, executions/shots are taken from a value computed for another "
                                f"circuit; the lookup key reads {sorted(keyattrs)} of the circuit but {COUNT} also depends on {missing}: circuits that "
                                "differ there (e.g. a broadcast tape with batch_size 3 next to an unbatched one) are recorded with the wrong counts",
                                line=up.lineno)
                elif not any(COUNT in norm(n) for n in ast.walk(fn) if isinstance(n, ast.Call)):
                    rep.refuted("R-C73-percircuit", MOD, f"_track_execute.{fn.name}", up,
                                f"executions/shots are not derived from {COUNT}(<circuit>) at all", line=up.lineno)
                else:
                    rep.unknown("R-C73-percircuit", where, "some path to the update does not bind the counts from the loop circuit directly; not decided")
    rep.floor("per-circuit tracker updates examined", n_ob, 2)  # soft: 1 (helper form) is reported as unknown by core

    # ---------------------------------------------------------------------------------- instance ownership
    rep.rule("R-C73-instance", "Device.__init__ assigns `self.tracker = Tracker()` on every path (the class-level default is shared); every Device "
             "subclass constructor under pennylane/devices calls super().__init__ on every normal path or assigns self.tracker itself")
    dev = ix.cls(DEV, "Device")
    rep.analysed(DEV, "Device.__init__")
    init = dev.own_method("__init__")
    class_level = any(isinstance(s, (ast.AnnAssign, ast.Assign)) and "tracker" in norm(s.target if isinstance(s, ast.AnnAssign) else s.targets[0])
                      for s in dev.node.body)
    n_inst = 0

    def is_tracker_store(nd):
        s = nd.stmt
        return nd.kind == "stmt" and isinstance(s, ast.Assign) and any(norm(t) == "self.tracker" for t in s.targets) \
            and isinstance(s.value, ast.Call) and (call_name(s.value) or "").split(".")[-1] == "Tracker"
    if init is None:
        if class_level:
            rep.refuted("R-C73-instance", DEV, "Device", "tracker", "class-level tracker and no constructor: all devices share one Tracker", line=dev.node.lineno)
    else:
        n_inst += 1
        cfg = CFG(init.node)
        p = cfg.path_avoiding(cfg.entry, cfg.exit, is_tracker_store, labels_excluded=("exc",))
        if p is None:
            rep.proved("R-C73-instance", f"{DEV}:Device.__init__", "fresh Tracker() assigned on every path")
        elif class_level:
            rep.refuted("R-C73-instance", DEV, "Device.__init__", "self.tracker",
                        "Device declares a class-level `tracker = Tracker()`; the constructor has a path that does not replace it with a fresh Tracker(), "
                        "so all device instances share one tracker: an execute on one device is counted on every other device (and activating "
                        "tracking on one activates it on all)", line=init.node.lineno)
        else:
            rep.unknown("R-C73-instance", f"{DEV}:Device.__init__", "no class-level tracker and no per-instance assignment")
    for c in ix.classes:
        if not c.module.relpath.startswith("pennylane/devices/") or c is dev or dev not in c.mro():
            continue
        ci = c.own_method("__init__")
        if ci is None:
            continue
        n_inst += 1
        owner = next((k for k in c.mro() if k is not dev and ("tracker" in k.methods or any(
            isinstance(s_, (ast.Assign, ast.AnnAssign)) and norm(s_.target if isinstance(s_, ast.AnnAssign) else s_.targets[0]) == "tracker"
            for s_ in k.node.body))), None)
        if owner is not None and dev in owner.mro():
            rep.proved("R-C73-instance", f"{c.module.relpath}:{c.name}.__init__", f"{owner.name} defines its own `tracker` (property/attribute): "
                       "the class-level default of Device is not used", nontrivial=False)
            continue
        cfg = CFG(ci.node)

        def reaches_base(nd):
            s = nd.stmt
            if nd.kind != "stmt" or s is None:
                return False
            for x in ast.walk(s):
                if isinstance(x, ast.Call) and isinstance(x.func, ast.Attribute) and x.func.attr == "__init__":
                    return True
            return is_tracker_store(nd)
        p = cfg.path_avoiding(cfg.entry, cfg.exit, reaches_base, labels_excluded=("exc",))
        where = f"{c.module.relpath}:{c.name}.__init__"
        rep.analysed(c.module.relpath, f"{c.name}.__init__")
        if p is None:
            rep.proved("R-C73-instance", where, "reaches a base-class constructor (or assigns its own tracker) on every normal path")
        else:
            rep.refuted("R-C73-instance", c.module.relpath, f"{c.name}.__init__", "super().__init__",
                        "a normal path through the constructor neither calls the base constructor nor assigns self.tracker: the instance "
                        "keeps the class-level Tracker shared by all devices", line=ci.node.lineno)
    rep.floor("device constructors examined for tracker ownership", n_inst, 6)

    # the tracker records `resources=c.specs["resources"]`: a copy that keeps the original's memoised `_specs` although operations or
    # measurements were replaced is recorded with the parent circuit's resources (rule shared with C40's R-C40-cache)
    rep.rule("R-C73-specs", "QuantumScript.copy(**update) carries the memoised `_specs` to the copy only under a guard that excludes an update of "
             "everything specs depends on")
    from .c40_extra import cache_part

    if not cache_part(ix, rep, rule="R-C73-specs", slots={"_specs", "specs"}, floor=0):
        rep.proved("R-C73-specs", "pennylane/core/qscript.py:QuantumScript.copy", "the memoised specs are never carried to a copy", nontrivial=False)


def wrap_condition(ctx, rep):
    """R-C73-inherit: which entry points get a tracking wrapper is decided against the Device base class, not against the class's own dict."""
    ix = ctx.index
    rep.rule("R-C73-inherit", "in simulator_tracking the loop that installs the wrappers of the name -> wrapper table wraps an entry point whenever the class's "
             "resolved attribute differs from Device's (getattr(cls, name) vs getattr(Device, name)); a test on the class's own namespace "
             "(`name in vars(cls)`, `cls.__dict__`) skips entry points inherited from an intermediate base class, whose calls then go uncounted")
    st = ix.func(MOD, "simulator_tracking")
    n = 0
    for loop in [x for x in walk_shallow(st.node) if isinstance(x, ast.For)]:
        sets = [c for c in ast.walk(loop) if isinstance(c, ast.Call) and isinstance(c.func, ast.Name) and c.func.id == "setattr"]
        if not sets:
            continue
        tnames = [x.id for x in ast.walk(loop.target) if isinstance(x, ast.Name)]
        # the (innermost) condition guarding the setattr, written as if-wrap or as `if <not overridden>: continue`
        conds = [t for t in ast.walk(loop) if isinstance(t, ast.If)]
        n += 1
        rep.analysed(MOD, "simulator_tracking")
        where = f"{MOD}:simulator_tracking wrapper loop"
        if not conds:
            rep.proved("R-C73-inherit", where, "every entry point of the table is wrapped unconditionally")
            continue
        texts = [norm(t.test) for t in conds] + [norm(v) for v in ast.walk(loop) if isinstance(v, ast.Assign) for v in [v.value]]
        own_ns = [t for t in texts if "vars(cls)" in t or "cls.__dict__" in t]
        via_getattr = [t for t in texts if "getattr(cls" in t and "getattr(Device" in t]
        if own_ns and not via_getattr:
            node = next(t for t in conds if "vars(cls)" in norm(t.test) or "cls.__dict__" in norm(t.test)) if any(
                "vars(cls)" in norm(t.test) or "cls.__dict__" in norm(t.test) for t in conds) else conds[0]
            rep.refuted("R-C73-inherit", MOD, "simulator_tracking", node.test,
                        f"`{own_ns[0][:70]}` looks only at the decorated class's own namespace: derivative / jvp / vjp entry points that the class inherits from an "
                        "intermediate (untracked) base class are not wrapped, so their calls update no tracker key", line=node.lineno)
        elif via_getattr:
            rep.proved("R-C73-inherit", where, "compares the resolved attribute with Device's")
        else:
            rep.unknown("R-C73-inherit", where, "wrap condition not recognised")
    rep.floor("wrapper-installing loops in simulator_tracking", n, 1)
