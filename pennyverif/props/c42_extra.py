"""R-C42-slices — the positional layout announced to a higher-order primitive is the layout of the bound arguments.

The capture front ends and the interpreter handlers bind `prim.bind(*A, *B, *rest, a_slice=…, b_slice=…, args_slice=…)` and
describe where each group lies by slices built as a chain: `sa = slice(0, len(A))`, `sb = slice(sa.stop, sa.stop + len(B))`,
`sr = slice(sb.stop, None)`.  The chain fixes an order of the groups (A, then B, then the rest); the starred arguments of
the bind call must come in that order, otherwise the implementation reads the constants of one function as those of the
other (only visible when both groups are non-empty).
"""

from __future__ import annotations

import ast

from ..cfg import walk_shallow
from ..core import norm

PREFIXES = ("pennylane/control_flow/", "pennylane/capture/", "pennylane/ops/op_math/", "pennylane/core/transforms/", "pennylane/workflow/")


def _slice_chain(fn):
    """ordered [(slice var, group expression text or None for 'the rest')] when the function defines one chain"""
    defs = {}
    for st in walk_shallow(fn):
        if isinstance(st, ast.Assign) and len(st.targets) == 1 and isinstance(st.targets[0], ast.Name) and isinstance(st.value, ast.Call) \
                and isinstance(st.value.func, ast.Name) and st.value.func.id == "slice" and len(st.value.args) == 2:
            defs[st.targets[0].id] = st.value
    if len(defs) < 2:
        return None
    first = [k for k, v in defs.items() if isinstance(v.args[0], ast.Constant) and v.args[0].value == 0]
    if len(first) != 1:
        return None
    order = []
    cur = first[0]
    seen = set()
    while cur is not None and cur not in seen:
        seen.add(cur)
        v = defs[cur]
        stop = v.args[1]
        grp = None
        # len(E)  |  prev.stop + len(E)  |  None
        lens = [x for x in ast.walk(stop) if isinstance(x, ast.Call) and isinstance(x.func, ast.Name) and x.func.id == "len" and len(x.args) == 1]
        if isinstance(stop, ast.Constant) and stop.value is None:
            grp = None
        elif len(lens) == 1:
            grp = norm(lens[0].args[0])
        else:
            return None
        order.append((cur, grp))
        nxt = [k for k, w in defs.items() if k not in seen and isinstance(w.args[0], ast.Attribute) and w.args[0].attr == "stop"
               and isinstance(w.args[0].value, ast.Name) and w.args[0].value.id == cur]
        cur = nxt[0] if len(nxt) == 1 else None
    if len(order) != len(defs):
        return None
    return order


def slices(ctx, rep):
    ix = ctx.index
    rep.rule("R-C42-slices", "where a function defines a chain of slices (slice(0, len(A)), slice(a.stop, a.stop + len(B)), slice(b.stop, None)) and "
             "binds a primitive with starred argument groups, the starred groups appear in the order of the chain")
    n = 0
    for mod in ix.modules.values():
        if not mod.relpath.startswith(PREFIXES) or ".bind(" not in mod.source or "slice(" not in mod.source:
            continue
        for f in ix.funcs_in(mod):
            chain = _slice_chain(f.node)
            if not chain:
                continue
            binds = [c for c in walk_shallow(f.node) if isinstance(c, ast.Call) and isinstance(c.func, ast.Attribute) and c.func.attr == "bind"
                     and any(isinstance(a, ast.Starred) for a in c.args)]
            for b in binds:
                # only binds that announce these slices
                kwnames = {norm(kw.value) for kw in b.keywords}
                if not any(sv in kwnames for sv, _ in chain):
                    continue
                n += 1
                rep.analysed(mod.relpath, f.qualname)
                starred = [norm(a.value) for a in b.args if isinstance(a, ast.Starred)]
                want = [g for _, g in chain]
                where = f"{mod.relpath}:{f.qualname} `{norm(b.func)}(…)`"
                named = [g for g in want if g is not None]
                if any(g not in starred for g in named):
                    rep.unknown("R-C42-slices", where, f"groups {named} of the slice chain not all found among the starred arguments {starred}")
                    continue
                pos = [starred.index(g) for g in named]
                rest_ok = True
                if want and want[-1] is None:
                    # the open-ended slice is the last group: every starred argument that is not a named group must come after them
                    others = [i for i, s_ in enumerate(starred) if s_ not in named]
                    rest_ok = all(i > max(pos) for i in others) if pos else True
                if pos == sorted(pos) and rest_ok:
                    rep.proved("R-C42-slices", where, f"starred groups {starred} follow the slice chain {[sv for sv, _ in chain]}")
                else:
                    rep.refuted("R-C42-slices", mod.relpath, f.qualname, f"{norm(b.func)}(*…) vs slices {[sv for sv, _ in chain]}",
                                f"the slices announce the groups in the order {named} (+ the remaining arguments) but the call binds {starred}: the primitive's "
                                "implementation reads one group's values as the other's whenever both are non-empty (e.g. the condition and the body of a "
                                "while loop both close over traced values)", line=b.lineno)
    rep.floor("primitive binds described by a slice chain", n, 4)


def memos(ctx, rep):
    from .. import memo

    ix = ctx.index
    rep.rule("R-C42-memo", "no interpreter / capture function memoises a transformed program under a key that contains the traced program only through "
             "projections (its name, its input avals): two subroutines with equal signatures and different bodies (different static arguments) "
             "would be replaced by one another")
    n = memo.report(ix, rep, "R-C42-memo", ("pennylane/capture/", "pennylane/control_flow/", "pennylane/core/transforms/", "pennylane/tape/plxpr_conversion.py"),
                    "traced programs")
    if not n:
        rep.proved("R-C42-memo", "capture / interpreter modules", "no partial-key memo (positive examples are kept as self-test variants)", nontrivial=False)


def ctrlorder(ctx, rep):
    """R-C42-ctrlorder: when a control layer is merged into an already controlled equation (ControlledOp2._bind_primitive), the new
    control wires and the new control values are inserted on the same side of the old ones: wires[i] is paired with values[i]."""
    ix = ctx.index
    rel = "pennylane/ops/op_math/controlled2.py"
    rep.rule("R-C42-ctrlorder", "in ops/op_math/controlled2.py, wherever a function builds both a control-wire sequence and a control-value sequence by "
             "concatenating this operator's own (`self.control_wires` / `self.control_values`) with those of an inner equation/operator, the own part "
             "sits on the same side in both concatenations")
    m = ix.module(rel)
    n = 0

    def own_side(e, attr):
        """'left' / 'right' / None: on which side of a two-operand `+` the operand mentioning self.<attr> sits"""
        if not (isinstance(e, ast.BinOp) and isinstance(e.op, ast.Add)):
            return None
        l_own = any(isinstance(x, ast.Attribute) and x.attr == attr and isinstance(x.value, ast.Name) and x.value.id == "self" for x in ast.walk(e.left))
        r_own = any(isinstance(x, ast.Attribute) and x.attr == attr and isinstance(x.value, ast.Name) and x.value.id == "self" for x in ast.walk(e.right))
        if l_own == r_own:
            return None
        return "left" if l_own else "right"
    for f in ix.funcs_in(m):
        wires_side = values_side = None
        wnode = vnode = None
        for st in walk_shallow(f.node):
            if isinstance(st, ast.Assign) and len(st.targets) == 1 and isinstance(st.targets[0], ast.Name):
                s_w = own_side(st.value, "control_wires")
                s_v = own_side(st.value, "control_values")
                if s_w and not s_v:
                    wires_side, wnode = s_w, st
                if s_v and not s_w:
                    values_side, vnode = s_v, st
        if wires_side is None or values_side is None:
            continue
        n += 1
        rep.analysed(rel, f.qualname)
        if wires_side == values_side:
            rep.proved("R-C42-ctrlorder", f"{rel}:{f.qualname}", f"own control wires and own control values are both placed on the {wires_side}")
        else:
            rep.refuted("R-C42-ctrlorder", rel, f.qualname, vnode,
                        f"the operator's own control wires are placed on the {wires_side} of the inner ones (`{norm(wnode)[:70]}`) but its control values on "
                        f"the {values_side} (`{norm(vnode)[:70]}`): after the merge wire i is paired with the control value of another wire, so "
                        "ctrl(adjoint(ctrl(op, control_values=a)), control_values=b) with a != b is captured as a different operator", line=vnode.lineno)
    rep.floor("functions merging own and inner control wires/values", n, 1)
