"""R-C33-rebuild — an operator that a device-layer transform re-creates keeps all of its configuration.

When a preprocessing transform replaces `op` (known to be an instance of class K through `isinstance(op, K)`) by a newly
constructed `K(...)`, every constructor parameter of K that has a default must be passed: a parameter that is left out
falls back to its default, i.e. the circuit handed to the device silently differs from the input
(`Snapshot(..., shots=None)` in a finite-shot workflow becomes a sampled snapshot).
"""

from __future__ import annotations

import ast

from ..cfg import walk_shallow
from ..core import norm
from ..index import ClassInfo, FuncInfo

FILES = ("pennylane/devices/preprocess.py",)


def rebuild(ctx, rep):
    ix = ctx.index
    rep.rule("R-C33-rebuild", "in device-layer preprocessing transforms, a constructor call K(...) in the body of `if isinstance(op, K)` that rebuilds `op` "
             "(reads attributes of `op`) passes every parameter of K.__init__ (positionally, by keyword or through **): nothing the user "
             "configured on the operator falls back to a default")
    n = 0
    for rel in FILES:
        m = ix.module(rel)
        for f in ix.funcs_in(m):
            for ifn in [x for x in walk_shallow(f.node) if isinstance(x, ast.If)]:
                t = ifn.test
                if not (isinstance(t, ast.Call) and isinstance(t.func, ast.Name) and t.func.id == "isinstance" and len(t.args) == 2 and isinstance(t.args[0], ast.Name)):
                    continue
                var = t.args[0].id
                try:
                    K = ix.resolve_expr(m, t.args[1])
                except RecursionError:
                    K = None
                if not isinstance(K, ClassInfo):
                    continue
                dc, init = K.lookup("__init__")
                if not isinstance(init, FuncInfo):
                    continue
                a = init.node.args
                params = [x.arg for x in a.posonlyargs + a.args][1:] + [x.arg for x in a.kwonlyargs]
                params = [p for p in params if p not in ("id",)]
                for call in [c for st in ifn.body for c in ast.walk(st) if isinstance(c, ast.Call)]:
                    try:
                        r = ix.resolve_expr(m, call.func)
                    except RecursionError:
                        r = None
                    if r is not K:
                        continue
                    reads_op = any(isinstance(x, ast.Name) and x.id == var for x in ast.walk(call))
                    # the measurement / parts taken from op through locals (mp = op.hyperparameters[...]) count as well
                    if not reads_op:
                        continue
                    n += 1
                    rep.analysed(rel, f.qualname)
                    if any(kw.arg is None for kw in call.keywords) or any(isinstance(x, ast.Starred) for x in call.args):
                        rep.unknown("R-C33-rebuild", f"{rel}:{f.qualname} `{norm(call)[:60]}`", "arguments forwarded through * / **")
                        continue
                    passed = set(params[: len(call.args)]) | {kw.arg for kw in call.keywords}
                    missing = [p for p in params if p not in passed]
                    where = f"{rel}:{f.qualname} rebuilds {K.name}"
                    if missing:
                        rep.refuted("R-C33-rebuild", rel, f.qualname, f"{K.name}(...) rebuilt without {', '.join(missing)}",
                                    f"`{norm(call)[:90]}` re-creates the {K.name} it replaces but does not pass `{missing[0]}`: the value the user set on the "
                                    f"operator falls back to the constructor default, so the device receives a different circuit than the one given",
                                    line=call.lineno)
                    else:
                        rep.proved("R-C33-rebuild", where, f"all of {params} passed on")
    rep.floor("operators re-created by device-layer transforms", n, 1)
