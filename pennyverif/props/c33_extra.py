"""R-C33-rebuild — an operator that a device-layer transform re-creates keeps all of its configuration.

When a preprocessing transform replaces `op` (known to be an instance of class K through `isinstance(op, K)`) by a newly
constructed `K(...)`, every constructor parameter of K that has a default must be passed: a parameter that is left out
falls back to its default, i.e. the circuit handed to the device silently differs from the input
(`Snapshot(..., shots=None)` in a finite-shot workflow becomes a sampled snapshot).
"""

from __future__ import annotations

import ast

from ..cfg import walk_shallow
from ..core import norm
from ..index import ClassInfo, FuncInfo

FILES = ("pennylane/devices/preprocess.py",)


def rebuild(ctx, rep):
    ix = ctx.index
    rep.rule("R-C33-rebuild", "in device-layer preprocessing transforms, a constructor call K(...) in the body of `if isinstance(op, K)` that rebuilds `op` "
             "(reads attributes of `op`) passes every parameter of K.__init__ (positionally, by keyword or through **): nothing the user "
             "configured on the operator falls back to a default")
    n = 0
    for rel in FILES:
        m = ix.module(rel)
        for f in ix.funcs_in(m):
            for ifn in [x for x in walk_shallow(f.node) if isinstance(x, ast.If)]:
                t = ifn.test
                if not (isinstance(t, ast.Call) and isinstance(t.func, ast.Name) and t.func.id == "isinstance" and len(t.args) == 2 and isinstance(t.args[0], ast.Name)):
                    continue
                var = t.args[0].id
                try:
                    K = ix.resolve_expr(m, t.args[1])
                except RecursionError:
                    K = None
                if not isinstance(K, ClassInfo):
                    continue
                dc, init = K.lookup("__init__")
                if not isinstance(init, FuncInfo):
                    continue
                a = init.node.args
                params = [x.arg for x in a.posonlyargs + a.args][1:] + [x.arg for x in a.kwonlyargs]
                params = [p for p in params if p not in ("id",)]
                for call in [c for st in ifn.body for c in ast.walk(st) if isinstance(c, ast.Call)]:
                    try:
                        r = ix.resolve_expr(m, call.func)
                    except RecursionError:
                        r = None
                    if r is not K:
                        continue
                    reads_op = any(isinstance(x, ast.Name) and x.id == var for x in ast.walk(call))
                    # the measurement / parts taken from op through locals (mp = op.hyperparameters[...]) count as well
                    if not reads_op:
                        continue
                    n += 1
                    rep.analysed(rel, f.qualname)
                    if any(kw.arg is None for kw in call.keywords) or any(isinstance(x, ast.Starred) for x in call.args):
                        rep.unknown("R-C33-rebuild", f"{rel}:{f.qualname} `{norm(call)[:60]}`", "arguments forwarded through * / **")
                        continue
                    passed = set(params[: len(call.args)]) | {kw.arg for kw in call.keywords}
                    missing = [p for p in params if p not in passed]
                    where = f"{rel}:{f.qualname} rebuilds {K.name}"
                    if missing:
                        rep.refuted("R-C33-rebuild", rel, f.qualname, f"{K.name}(...) rebuilt without {', '.join(missing)}",
                                    f"`{norm(call)[:90]}` re-creates the {K.name} it replaces but does not pass `{missing[0]}`: the value the user set on the "
                                    f"operator falls back to the constructor default, so the device receives a different circuit than the one given",
                                    line=call.lineno)
                    else:
                        rep.proved("R-C33-rebuild", where, f"all of {params} passed on")
    rep.floor("operators re-created by device-layer transforms", n, 1)


def modes(ctx, rep):
    """R-C33-modes — Device.preprocess_transforms derives two capability views, `self.capabilities.filter(finite_shots=False)` and
    `…(finite_shots=True)`, and passes per-mode conditions in keyword pairs (`stopping_condition` / `stopping_condition_shots`,
    `analytic_measurements` / `sample_measurements`).  The finite-shot member of a pair must be computed from the finite-shot view
    and the analytic member from the analytic view; a member that reads only the *other* mode's view validates circuits against the
    wrong capabilities (an observable / measurement the device supports only analytically is let through with shots)."""
    ix = ctx.index
    rep.rule("R-C33-modes", "in Device.preprocess_transforms, for each keyword pair (k, k_shots) / (analytic_measurements, sample_measurements) of "
             "an add_transform call: after reading through locals, the finite-shot member does not read the analytic capabilities view without "
             "the finite-shot one, and vice versa")
    REL = "pennylane/devices/device_api.py"
    f = ix.func(REL, "Device.preprocess_transforms")
    rep.analysed(REL, f.qualname)
    views = {}
    defs = {}
    for st in ast.walk(f.node):
        if isinstance(st, ast.Assign) and len(st.targets) == 1 and isinstance(st.targets[0], ast.Name):
            defs.setdefault(st.targets[0].id, []).append(st.value)
            v = st.value
            if isinstance(v, ast.Call) and isinstance(v.func, ast.Attribute) and v.func.attr == "filter":
                for kw in v.keywords:
                    if kw.arg == "finite_shots" and isinstance(kw.value, ast.Constant) and isinstance(kw.value.value, bool):
                        views[st.targets[0].id] = "shots" if kw.value.value else "analytic"
    if set(views.values()) != {"shots", "analytic"}:
        rep.unknown("R-C33-modes", f"{REL}:{f.qualname}", "the two capability views (filter(finite_shots=…)) were not found as locals")
        return

    def reads(e, depth=0, seen=()):
        out = set()
        for x in ast.walk(e):
            if isinstance(x, ast.Name):
                if x.id in views:
                    out.add(views[x.id])
                elif x.id in defs and len(defs[x.id]) == 1 and depth < 4 and x.id not in seen:
                    out |= reads(defs[x.id][0], depth + 1, seen + (x.id,))
        return out
    n = 0
    for c in ast.walk(f.node):
        if not (isinstance(c, ast.Call) and isinstance(c.func, ast.Attribute) and c.func.attr == "add_transform"):
            continue
        kws = {k.arg: k.value for k in c.keywords if k.arg}
        pairs = [(k, k + "_shots") for k in kws if k + "_shots" in kws]
        if "analytic_measurements" in kws and "sample_measurements" in kws:
            pairs.append(("analytic_measurements", "sample_measurements"))
        for ka, ks in pairs:
            n += 1
            ra, rs = reads(kws[ka]), reads(kws[ks])
            where = f"{REL}:{f.qualname} {norm(c.args[0]) if c.args else '?'}({ka}=, {ks}=)"
            if rs == {"analytic"}:
                rep.refuted("R-C33-modes", REL, f.qualname, f"{norm(c.args[0]) if c.args else '?'}: {ks} reads the analytic view only",
                            f"`{ks}` of {norm(c.args[0]) if c.args else 'the transform'} is computed from the analytic capabilities "
                            "(filter(finite_shots=False)) and never from the finite-shot ones: with shots, circuits are validated / decomposed against what the "
                            "device supports analytically", line=kws[ks].lineno)
            elif ra == {"shots"}:
                rep.refuted("R-C33-modes", REL, f.qualname, f"{norm(c.args[0]) if c.args else '?'}: {ka} reads the finite-shot view only",
                            f"`{ka}` of {norm(c.args[0]) if c.args else 'the transform'} is computed from the finite-shot capabilities only: analytic "
                            "executions are validated against the wrong capabilities", line=kws[ka].lineno)
            elif "shots" in rs and "analytic" in ra:
                rep.proved("R-C33-modes", where, "each member reads the view of its own mode")
            else:
                rep.unknown("R-C33-modes", where, f"views read: {sorted(ra)} / {sorted(rs)}")
    rep.floor("per-mode keyword pairs in Device.preprocess_transforms", n, 4)
