"""R-C03-mod — angle reductions inside methods of operator classes (simplify & co.) keep the matrix.

Hooked from c03.py with ``from .c03_extra import extra; extra(ctx, rep)``.
"""

from __future__ import annotations

from .. import modrule
from .. import trigdom as T

RULE = "R-C03-mod"


def _in_operator_method(f):
    g = f
    while g is not None:
        if g.cls is not None:
            return T.is_operator_class(g.cls)
        g = g.parent
    return False


def extra(ctx, rep):
    ix = ctx.index
    rep.rule(RULE, "for every `x % (k*pi)` inside a method of an operator class (simplify, pow, adjoint ...) whose value reaches — directly, "
             "through pass-through wrappers, one local name or the tuple-unpacked generator form — the angle argument of a resolved gate "
             "constructor G(p=...): k*pi is an integer multiple of the exact E4 matrix period of G.p (global phase included); otherwise the "
             "rewritten operator has a different matrix (sign -1). Inexact period => unknown; values only compared/returned => no obligation")
    sites = [s for s in modrule.scan_modulo_sites(ix, lambda m: m.relpath.startswith("pennylane/ops/") or m.relpath.startswith("pennylane/templates/"))
             if _in_operator_method(s.func)]
    n_sites, n_sinks, n_proved = modrule.report_sites(ix, rep, RULE, sites)
    rep.floor("angle reductions (% k*pi) inside operator-class methods", n_sites, 21)
    rep.floor("(reduction, gate parameter) sinks in operator-class methods", n_sinks, 26)
    rep.floor("R-C03-mod sinks proved", n_proved, 26)
    return rep
