"""R-C70-shared — the Stim circuit built once per tape is shared by all of the tape's measurements and is read-only for them.

`DefaultClifford.simulate` builds one `stim.Circuit` and hands it to every measurement routine (positionally or as
kwargs["stim_circuit"]).  A routine that appends its measurement instructions to that object instead of to a `.copy()`
changes what every later measurement of the same tape is computed from.  E2 effect analysis with the circuit as root:
append / append_from_stim_program_text / += / clear on the shared object (not on a copy) is a violation.
"""

from __future__ import annotations

import ast

from ..cfg import CFG
from ..core import norm
from ..effects import Engine, Spec, T

MOD = "pennylane/devices/default_clifford.py"
STIM_SPEC = Spec(
    name="shared Stim circuit",
    copy_methods=frozenset({"copy", "__copy__", "flattened", "without_noise", "inverse"}),
    mutating_methods=frozenset({"append", "append_from_stim_program_text", "append_operation", "clear", "insert", "pop", "__iadd__", "__imul__"}),
    root_expr_texts=frozenset({"kwargs.get('stim_circuit')", "kwargs['stim_circuit']", "kwargs.get('stim_circuit', None)"}),
    root_aug_mutates=True,
)
# the builders of the circuit (who-may-write): simulate creates it, _handle_state_prep extends the one under construction
BUILDERS = {"simulate", "_handle_state_prep"}


def _build_phase_helper(ix, m, f, receivers):
    """f is part of the construction of the circuit: every call of it in the module sits in a builder, at a point that cannot be
    reached from a call of a routine that reads the finished circuit (the other functions receiving `stim_circuit`)"""
    sites = []
    for g in ix.funcs_in(m):
        if g is f:
            continue
        for c in ast.walk(g.node):
            if isinstance(c, ast.Call) and ((isinstance(c.func, ast.Attribute) and c.func.attr == f.name) or (isinstance(c.func, ast.Name) and c.func.id == f.name)):
                sites.append((g, c))
    if not sites or any(g.name not in BUILDERS for g, _ in sites):
        return None
    readers = {r for r in receivers if r not in BUILDERS and r != f.name}
    for g in {g for g, _ in sites}:
        cfg = CFG(g.node, may_raise=lambda n: False)

        def calls(nd, names):
            return nd.stmt is not None and any(isinstance(c, ast.Call) and ((isinstance(c.func, ast.Attribute) and c.func.attr in names)
                                                                              or (isinstance(c.func, ast.Name) and c.func.id in names))
                                               for c in ([nd.stmt.test] if nd.kind == "test" else [nd.stmt]) for c in ast.walk(c)
                                               ) and nd.kind in ("stmt", "return", "test")
        starts = [nd.id for nd in cfg.stmts() if calls(nd, readers)]
        seen, stack = set(), [s_ for st in starts for s_, _l in cfg.succ[st]]
        while stack:
            cur = stack.pop()
            if cur in seen:
                continue
            seen.add(cur)
            stack.extend(s_ for s_, _l in cfg.succ[cur])
        if any(nd.id in seen for nd in cfg.stmts() if calls(nd, {f.name})):
            return None
    return sorted({g.qualname for g, _ in sites})


def shared(ctx, rep):
    ix = ctx.index
    rep.rule("R-C70-shared", "no measurement / snapshot routine of default.clifford (every function of the module that receives `stim_circuit` as a "
             "parameter or through kwargs, other than the builders " + ", ".join(sorted(BUILDERS)) + ") mutates the circuit it is given: "
             "instructions are appended to a .copy()")
    m = ix.module(MOD)
    eng = Engine(ix, STIM_SPEC, max_depth=3)
    n = 0
    for f in ix.funcs_in(m):
        if f.name in BUILDERS:
            continue
        a = f.node.args
        params = [x.arg for x in a.posonlyargs + a.args + a.kwonlyargs]
        env = {}
        if "stim_circuit" in params:
            env["stim_circuit"] = {T}
        uses_kw = a.kwarg is not None and a.kwarg.arg == "kwargs" and "stim_circuit" in norm(f.node)
        if not env and not uses_kw:
            continue
        n += 1
        rep.analysed(MOD, f.qualname)
        res = eng.analyse(f, env)
        if res.sinks:
            receivers = {g.name for g in ix.funcs_in(m) if "stim_circuit" in [x.arg for x in g.node.args.posonlyargs + g.node.args.args + g.node.args.kwonlyargs]
                         or (g.node.args.kwarg is not None and "stim_circuit" in norm(g.node))}
            owners = _build_phase_helper(ix, m, f, receivers)
            if owners:
                rep.proved("R-C70-shared", f"{MOD}:{f.qualname}", f"part of the construction: called only from {owners}, before any routine that reads the finished circuit")
                continue
        if not res.sinks:
            rep.proved("R-C70-shared", f"{MOD}:{f.qualname}", "the shared circuit is only read or copied")
        for s in res.sinks:
            rep.refuted("R-C70-shared", MOD, f.qualname, s.node,
                        f"{f.name} {s.why}: the circuit object is shared by all measurements of the tape, so every measurement processed afterwards "
                        "(and a later execution of the same prepared circuit) sees the extra instructions — wrong samples, parities and counts", line=s.line)
    rep.floor("routines receiving the shared Stim circuit", n, 8)


def memos(ctx, rep):
    from .. import memo

    ix = ctx.index
    rep.rule("R-C70-memo", "no function of default_clifford.py memoises a translation computed from an operator under a key that contains the operator only "
             "through projections (name, wires): noise channels of one type on the same wires differ in their probabilities / Pauli words")
    if not memo.report(ix, rep, "R-C70-memo", (MOD,), "operators"):
        rep.proved("R-C70-memo", MOD, "no partial-key memo (a positive example is kept as a self-test variant)", nontrivial=False)
