"""C40 — circuit parameter bookkeeping: copies are independent, rebinding does not write its input.

R-C40-alias: ownership of what QuantumScript.__init__ stores.  R-C40-bind: effect analysis (E2) of
every rebinding handler and of QuantumScript's own sibling-building methods.
"""

from __future__ import annotations

import ast

from ..astutil import expand_locals, call_name
from ..cfg import walk_shallow
from ..core import AnalysisError, Report, norm
from ..effects import TAPE_SPEC, Engine, E, T
from ..index import FuncInfo

QS = "pennylane/core/qscript.py"
BNP = "pennylane/ops/functions/bind_new_parameters.py"
FRESH_CALLS = {"list", "tuple", "dict", "set", "frozenset", "sorted", "Shots", "deepcopy", "copy", "Wires"}


def _classify_store(value, params):
    """'fresh' / 'alias:<param>' / 'const' / 'unknown' for the value stored from constructor arguments"""
    if isinstance(value, ast.Constant):
        return "const"
    if isinstance(value, ast.Name):
        return f"alias:{value.id}" if value.id in params else "unknown"
    if isinstance(value, ast.Call):
        cn = (call_name(value) or "").split(".")[-1]
        if cn in FRESH_CALLS or cn[:1].isupper():
            return "fresh"
        return "unknown"
    if isinstance(value, (ast.List, ast.Dict, ast.Tuple, ast.Set, ast.ListComp, ast.DictComp, ast.SetComp)):
        return "fresh"
    if isinstance(value, ast.IfExp):
        a, b = _classify_store(value.body, params), _classify_store(value.orelse, params)
        for x in (a, b):
            if x.startswith("alias:"):
                return x
        if "unknown" in (a, b):
            return "unknown"
        return "fresh"
    if isinstance(value, ast.BoolOp):
        kinds = [_classify_store(v, params) for v in value.values]
        for x in kinds:
            if x.startswith("alias:"):
                return x
        return "unknown" if "unknown" in kinds else "fresh"
    return "unknown"


def check(ctx):
    ix = ctx.index
    rep = Report("C40", "copies of a circuit are independent of the original and binding new values never writes to the object it "
                 "was given (aliasing form of the property; index arithmetic over par_info is runtime and not decided).")
    rep.rule("R-C40-alias", "every mutable field QuantumScript.__init__ stores from a constructor argument is wrapped in a copying / "
             "immutable constructor (list(...), Shots(...)), so that copy(), bind_new_parameters(), map_to_standard_wires() — which "
             "build siblings through the constructor — can never share a mutable container with the original or with the caller")
    rep.rule("R-C40-bind", "effect analysis (E2) rooted at the operator parameter of every handler registered on bind_new_parameters and at "
             "`self` of QuantumScript.bind_new_parameters / copy: no write through the input operator, its hyperparameters or the operators it owns")
    rep.assume("constructors of capitalised classes and list/tuple/dict/sorted/Shots/Wires/deepcopy return objects not shared with their argument")

    qs = ix.cls(QS, "QuantumScript")
    init = qs.own_method("__init__")
    if init is None:
        raise AnalysisError("QuantumScript.__init__ vanished")
    rep.analysed(QS, init.qualname)
    params = {a.arg for a in init.node.args.args[1:]} | {a.arg for a in init.node.args.kwonlyargs}
    n_fields = 0
    for st in walk_shallow(init.node):
        if isinstance(st, ast.Assign) and len(st.targets) == 1 and isinstance(st.targets[0], ast.Attribute) \
                and isinstance(st.targets[0].value, ast.Name) and st.targets[0].value.id == "self":
            used = {n.id for n in ast.walk(st.value) if isinstance(n, ast.Name)} & params
            if not used:
                continue
            n_fields += 1
            kind = _classify_store(expand_locals(init.node, st, st.value), params)
            where = f"{QS}:QuantumScript.__init__ {norm(st)}"
            if kind in ("fresh", "const"):
                rep.proved("R-C40-alias", where, "stored through a copying / immutable constructor")
            elif kind.startswith("alias:"):
                p = kind.split(":", 1)[1]
                rep.refuted("R-C40-alias", QS, "QuantumScript.__init__", st,
                            f"stores the caller's `{p}` object as is: copy() and the other sibling-building methods pass the original's own "
                            f"`{st.targets[0].attr}` back into the constructor, so a circuit, its copies and the caller share one mutable object "
                            "(editing one edits all)")
            else:
                rep.unknown("R-C40-alias", where, "stored value form not modelled")
    rep.floor("constructor fields of QuantumScript", n_fields, 4)

    # copy(): every container handed to the constructor is fresh or goes through the copying constructor (already proved above);
    # additionally no *post-construction* attribute of the new script may be assigned a mutable container of self
    cp = qs.own_method("copy")
    if cp is not None:
        rep.analysed(QS, cp.qualname)
        for st in walk_shallow(cp.node):
            if isinstance(st, ast.Assign) and isinstance(st.targets[0], ast.Attribute) and isinstance(st.targets[0].value, ast.Name) \
                    and st.targets[0].value.id != "self" and isinstance(st.value, ast.Attribute) and norm(st.value.value) == "self":
                attr = st.value.attr
                if attr in ("_ops", "_measurements", "_trainable_params", "operations", "measurements", "trainable_params"):
                    rep.refuted("R-C40-alias", QS, "QuantumScript.copy", st,
                                f"assigns the original's own `{attr}` container to the copy after construction: the two scripts share it")
                else:
                    rep.proved("R-C40-alias", f"{QS}:QuantumScript.copy {norm(st)}", "shares only an immutable / cache value", nontrivial=False)

    # ---- R-C40-bind ---------------------------------------------------------------------------
    eng = Engine(ix, TAPE_SPEC, max_depth=8 if ctx.thorough else 4, dispatch_bases=("Operator", "Operator2", "MeasurementProcess"))
    m = ix.module(BNP)
    handlers = []
    for f in ix.funcs_in(m):
        if f.parent is not None:
            continue
        decs = [norm(d) for d in f.node.decorator_list]
        if f.name == "bind_new_parameters" or any(d.startswith("bind_new_parameters.register") for d in decs):
            handlers.append(f)
    rep.floor("rebinding handlers", len(handlers), 20)
    for f in handlers:
        rep.analysed(BNP, f.qualname)
        p0 = f.node.args.args[0].arg
        res = eng.analyse(f, {p0: {E}})
        where = f"{BNP}:{f.qualname}@L{f.node.lineno}"
        if not res.sinks:
            rep.proved("R-C40-bind", where, "does not write through the operator it is given")
        for s in res.sinks:
            rep.refuted("R-C40-bind", BNP, f.qualname, s.node,
                        f"rebinding handler {s.why.replace('owned by the input tape', 'that is (part of) the operator being rebound')}: "
                        "binding new parameters changes the original operator", line=s.line)
    for name in ("bind_new_parameters", "copy", "map_to_standard_wires"):
        f = qs.own_method(name)
        if f is None:
            continue
        rep.analysed(QS, f.qualname)
        res = eng.analyse(f, {"self": {T}})
        if not res.sinks:
            rep.proved("R-C40-bind", f"{QS}:{f.qualname}", "does not write to self or to the operators it owns")
        for s in res.sinks:
            rep.refuted("R-C40-bind", QS, f.qualname, s.node, f"QuantumScript.{name} {s.why}", line=s.line)
    from .c40_extra import extra

    extra(ctx, rep)
    return rep
