"""Supplementary C11 rules added after independent seeded changes were missed by the rule-vs-resource
comparison (both were confirmed by hand first):

* R-C11-accum — DecompositionRule.compute_resources normalises the keys of the declared dict
  (``op = abstractify(op)``), so two declared keys can coincide afterwards; the counts must then be
  *added*.  A plain ``d[op] = count`` after a key-normalising re-binding silently drops gates from the
  declared resources of every rule with coinciding keys.
* R-C11-slice — contradiction rule over the modules that hold decomposition rules: after
  ``x = x[:n]`` a later ``y = x[n:]`` (same ``n``, ``x`` and ``n`` not re-bound in between) is provably
  empty.  In rule helpers the sliced value is a work-wire register, and an always-empty register makes
  the body emit different gates from the ones the resource function (computed from the register's
  length) declares.
"""

from __future__ import annotations

import ast

from ..astutil import call_name, method_call
from ..cfg import walk_shallow
from ..core import norm

DR = "pennylane/decomposition/decomposition_rule.py"


def extra(ctx, rep):
    ix = ctx.index
    rep.rule("R-C11-accum", "compute_resources adds the counts of declared keys that coincide after abstractify (Counter.update / "
             "d[k] = d.get(k, 0) + n / +=), never overwrites them")
    rep.rule("R-C11-slice", "in modules holding decomposition rules no value is sliced `x = x[:n]` and then `x[n:]` (provably empty register)")
    cls = ix.cls(DR, "DecompositionRule")
    f = cls.own_method("compute_resources")
    if f is None:
        from ..core import AnalysisError

        raise AnalysisError("DecompositionRule.compute_resources vanished")
    rep.analysed(DR, f.qualname)
    loops = [n for n in walk_shallow(f.node) if isinstance(n, ast.For) and isinstance(n.target, ast.Tuple) and ".items()" in norm(n.iter)]
    if not loops:
        rep.unknown("R-C11-accum", f"{DR}:{f.qualname}", "loop over the declared dict not recognised")
    for lp in loops:
        key = lp.target.elts[0].id if isinstance(lp.target.elts[0], ast.Name) else None
        cnt = lp.target.elts[1].id if isinstance(lp.target.elts[1], ast.Name) else None
        normalised = any(isinstance(n, ast.Assign) and any(isinstance(t, ast.Name) and t.id == key for t in n.targets)
                         and isinstance(n.value, ast.Call) for b in lp.body for n in ast.walk(b))
        if not normalised:
            rep.proved("R-C11-accum", f"{DR}:{f.qualname}", "keys are not re-bound inside the loop; dict keys are already distinct", nontrivial=False)
            continue
        verdict = None
        site = lp
        for b in lp.body:
            for n in ast.walk(b):
                # additive forms
                if isinstance(n, ast.Call) and method_call(n) and method_call(n)[1] == "update" and key in norm(n):
                    recv = method_call(n)[0]
                    rname = recv.id if isinstance(recv, ast.Name) else None
                    is_counter = False
                    for m in walk_shallow(f.node):
                        if isinstance(m, ast.Assign) and any(isinstance(t, ast.Name) and t.id == rname for t in m.targets) \
                                and isinstance(m.value, ast.Call) and (call_name(m.value) or "").split(".")[-1] == "Counter":
                            is_counter = True
                    verdict, site = ("add" if is_counter else "overwrite"), n
                if isinstance(n, ast.AugAssign) and isinstance(n.op, ast.Add) and isinstance(n.target, ast.Subscript) and norm(n.target.slice) == key:
                    verdict, site = "add", n
                if isinstance(n, ast.Assign) and isinstance(n.targets[0], ast.Subscript) and norm(n.targets[0].slice) == key:
                    v = norm(n.value)
                    if ".get(" in v and "+" in v:
                        verdict, site = "add", n
                    elif v == cnt:
                        verdict, site = "overwrite", n
        if verdict == "add":
            rep.proved("R-C11-accum", f"{DR}:{f.qualname}", "coinciding keys are accumulated additively")
        elif verdict == "overwrite":
            rep.refuted("R-C11-accum", DR, f.qualname, site,
                        f"declared keys are normalised ({key} = abstractify({key})) and then stored with a plain assignment/update on a dict: two "
                        "declared keys that coincide after normalisation overwrite each other, so the declared count of that gate is too low")
        else:
            rep.unknown("R-C11-accum", f"{DR}:{f.qualname}", "accumulation form not modelled")

    # ---- R-C11-slice ------------------------------------------------------------------------
    n_funcs = 0
    for mod in ix.modules.values():
        if "register_resources" not in mod.source:
            continue
        for fn in ix.funcs_in(mod):
            n_funcs += 1
            for body in _bodies(fn.node):
                _slice_scan(rep, mod, fn, body)
    rep.floor("functions scanned for dead register slices", n_funcs, 500)


def _bodies(func):
    out = [func.body]
    for n in walk_shallow(func):
        for fld in ("body", "orelse", "finalbody"):
            b = getattr(n, fld, None)
            if n is not func and isinstance(b, list) and b and isinstance(b[0], ast.stmt):
                out.append(b)
    return out


def _slice_scan(rep, mod, fn, body):
    """straight-line scan of one statement list"""
    head = {}  # name -> upper-bound text after  x = x[:n]
    for st in body:
        if isinstance(st, ast.Assign) and len(st.targets) == 1 and isinstance(st.targets[0], ast.Name):
            tgt = st.targets[0].id
            v = st.value
            # use of a dead slice:  y = x[n:]
            if isinstance(v, ast.Subscript) and isinstance(v.value, ast.Name) and isinstance(v.slice, ast.Slice) \
                    and v.slice.lower is not None and v.slice.upper is None and v.slice.step is None:
                src = v.value.id
                if src in head and head[src] == norm(v.slice.lower):
                    rep.refuted("R-C11-slice", mod.relpath, fn.qualname, st,
                                f"`{src}` was already truncated to `{src}[:{head[src]}]`, so `{norm(v)}` is always empty: the register handed on "
                                "is lost and the rule emits different gates from those its resource function declares")
            # record  x = x[:n]
            if isinstance(v, ast.Subscript) and isinstance(v.value, ast.Name) and v.value.id == tgt and isinstance(v.slice, ast.Slice) \
                    and v.slice.lower is None and v.slice.upper is not None and v.slice.step is None:
                head[tgt] = norm(v.slice.upper)
                continue
            # any other re-binding invalidates
            head.pop(tgt, None)
            for k in [k for k, up in head.items() if tgt in {x.id for x in ast.walk(ast.parse(up, mode="eval")) if isinstance(x, ast.Name)}]:
                head.pop(k)
        elif isinstance(st, (ast.If, ast.For, ast.While, ast.With, ast.Try)):
            # conservatively forget names assigned inside compound statements
            for n in ast.walk(st):
                if isinstance(n, ast.Name) and isinstance(n.ctx, ast.Store):
                    head.pop(n.id, None)
        elif isinstance(st, ast.AugAssign) and isinstance(st.target, ast.Name):
            head.pop(st.target.id, None)
