"""C47 (one clause) — the estimator's auxiliary-wire bookkeeping never goes negative.

Guard-dominates-decrement on WireResourceManager plus who-may-write over the package.
"""

from __future__ import annotations

import ast

from ..astutil import inline_single_defs
from ..cfg import CFG, walk_shallow
from ..core import Report, norm

MOD = "pennylane/estimator/wires_manager.py"
CLS = "WireResourceManager"
FIELDS = ("zeroed", "any_state")


def _self_field(e):
    if isinstance(e, ast.Attribute) and isinstance(e.value, ast.Name) and e.value.id == "self" and e.attr in FIELDS:
        return e.attr
    return None


_FLAG_DEFS: dict = {}  # single-definition locals of the function being analysed (flags such as `exceeds = n > available`)


def _guard_edge(test, amount, field, aliases):
    """Which outgoing label of this test establishes ``amount <= self.field``? -> 'true'/'false'/None"""
    if isinstance(test, ast.Name) and test.id in _FLAG_DEFS:
        return _guard_edge(_FLAG_DEFS[test.id], amount, field, aliases)
    if isinstance(test, ast.BoolOp):
        # `a and b` true  => every conjunct holds;  `a or b` false => every disjunct fails
        if isinstance(test.op, ast.And):
            return "true" if any(_guard_edge(v, amount, field, aliases) == "true" for v in test.values) else None
        return "false" if any(_guard_edge(v, amount, field, aliases) == "false" for v in test.values) else None
    if isinstance(test, ast.UnaryOp) and isinstance(test.op, ast.Not):
        inner = _guard_edge(test.operand, amount, field, aliases)
        return {"true": "false", "false": "true"}.get(inner)
    if not isinstance(test, ast.Compare) or len(test.ops) != 1:
        return None
    l, op, r = test.left, test.ops[0], test.comparators[0]

    def is_field(e):
        return _self_field(e) == field or (isinstance(e, ast.Name) and e.id in aliases)

    def is_amt(e):
        return norm(e) == amount

    if is_amt(l) and is_field(r):
        if isinstance(op, (ast.Gt,)):  # n > F  -> false edge gives n <= F
            return "false"
        if isinstance(op, (ast.LtE, ast.Lt)):  # n <= F / n < F
            return "true"
        if isinstance(op, ast.GtE):  # n >= F false -> n < F
            return "false"
    if is_field(l) and is_amt(r):
        if isinstance(op, (ast.GtE, ast.Gt)):  # F >= n
            return "true"
        if isinstance(op, ast.Lt):  # F < n false -> F >= n
            return "false"
        if isinstance(op, ast.LtE):  # F <= n false -> F > n
            return "false"
    return None


def check(ctx):
    ix = ctx.index
    rep = Report("C47", "auxiliary-wire bookkeeping never goes negative (the other sentences of C47 are arithmetic over runtime "
                 "workflows and are not decided).")
    rep.rule("R-C47-guard", "every decrement self.<counter> -= n in WireResourceManager is reached only through a branch edge that "
             "establishes n <= self.<counter> (with no write to the counter in between); the complementary branch clamps to a "
             "non-negative literal or raises")
    rep.rule("R-C47-writers", "no code outside WireResourceManager assigns .zeroed / .any_state of a manager")
    rep.assume("counters start non-negative (constructor arguments are the caller's contract) and n is a non-negative count")

    m = ix.module(MOD)
    cls = ix.cls(MOD, CLS)
    rep.analysed(m.relpath)
    n_dec = 0
    n_writes = 0
    for name, fl in cls.methods.items():
        for f in fl:
            rep.analysed(m.relpath, f.qualname)
            cfg = CFG(f.node, may_raise=lambda n: False)
            _FLAG_DEFS.clear()
            _FLAG_DEFS.update({k: v for k, v in inline_single_defs(f.node).items() if isinstance(v, (ast.Compare, ast.BoolOp, ast.UnaryOp))})
            # aliases:  local = self.<field>
            alias = {fld: set() for fld in FIELDS}
            for nd in cfg.stmts("stmt"):
                st = nd.stmt
                if isinstance(st, ast.Assign) and len(st.targets) == 1 and isinstance(st.targets[0], ast.Name):
                    fld = _self_field(st.value)
                    if fld:
                        alias[fld].add(st.targets[0].id)
            for nd in cfg.stmts("stmt"):
                st = nd.stmt
                fld, amount, kind = None, None, None
                if isinstance(st, ast.AugAssign) and _self_field(st.target):
                    fld = _self_field(st.target)
                    n_writes += 1
                    if isinstance(st.op, ast.Sub):
                        amount, kind = norm(st.value), "dec"
                    elif isinstance(st.op, ast.Add):
                        rep.proved("R-C47-guard", f"{m.relpath}:{f.qualname} {norm(st)}", "increment", nontrivial=False)
                        continue
                    else:
                        rep.unknown("R-C47-guard", f"{m.relpath}:{f.qualname} {norm(st)}", "unmodelled augmented operator")
                        continue
                elif isinstance(st, ast.Assign) and any(_self_field(t) for t in st.targets):
                    fld = next(_self_field(t) for t in st.targets if _self_field(t))
                    n_writes += 1
                    v = st.value
                    if isinstance(v, ast.BinOp) and isinstance(v.op, ast.Sub) and _self_field(v.left) == fld:
                        amount, kind = norm(v.right), "dec"
                    elif isinstance(v, ast.Constant) and isinstance(v.value, (int, float)):
                        if v.value < 0:
                            rep.refuted("R-C47-guard", m.relpath, f.qualname, st, f"assigns the negative literal {v.value} to {fld}")
                        else:
                            rep.proved("R-C47-guard", f"{m.relpath}:{f.qualname} {norm(st)}", "non-negative literal")
                        continue
                    elif f.name == "__init__" and isinstance(v, ast.Name):
                        rep.proved("R-C47-guard", f"{m.relpath}:{f.qualname} {norm(st)}", "initial value (caller's contract)", nontrivial=False)
                        continue
                    elif isinstance(v, ast.Call) and norm(v.func) == "max" and any(isinstance(a, ast.Constant) and a.value == 0 for a in v.args):
                        rep.proved("R-C47-guard", f"{m.relpath}:{f.qualname} {norm(st)}", "clamped with max(0, ...)")
                        continue
                    else:
                        rep.unknown("R-C47-guard", f"{m.relpath}:{f.qualname} {norm(st)}", "assignment form not modelled")
                        continue
                else:
                    continue
                n_dec += 1
                # search a path entry -> decrement that uses no guard edge for (amount, fld) and passes no re-write of fld after the guard
                bad = _unguarded_path(cfg, nd, amount, fld, alias[fld])
                stale = None
                if bad is None:
                    guards = [g for g in cfg.stmts("test") if _guard_edge(g.stmt.test, amount, fld, alias[fld])]
                    for w in cfg.stmts("stmt"):
                        if w.id == nd.id:
                            continue
                        ws = w.stmt
                        wt = [ws.target] if isinstance(ws, ast.AugAssign) else (ws.targets if isinstance(ws, ast.Assign) else [])
                        if not any(_self_field(t) == fld for t in wt):
                            continue
                        if nd.id in cfg.reachable(w.id) and any(w.id in cfg.reachable(g.id) for g in guards):
                            stale = w
                if stale is not None:
                    rep.refuted("R-C47-guard", m.relpath, f.qualname, st,
                                f"self.{fld} is written again (L{stale.line}: {norm(stale.stmt)}) between the bound check and this decrement: "
                                f"the established {amount} <= self.{fld} no longer holds")
                elif bad is None:
                    rep.proved("R-C47-guard", f"{m.relpath}:{f.qualname} {norm(st)}", f"every path establishes {amount} <= self.{fld} first")
                else:
                    via = " -> ".join(f"L{x.line}" for x in bad if x.stmt is not None)
                    rep.refuted("R-C47-guard", m.relpath, f.qualname, st,
                                f"self.{fld} is decremented by {amount} on a path that never establishes {amount} <= self.{fld} (path {via}): "
                                "the counter can become negative")
    rep.floor("guarded decrements in WireResourceManager", n_dec, 2)
    rep.floor("writes to the counters inside the class", n_writes, 6)

    # who-may-write
    n_ext = 0
    for mod in ix.modules.values():
        if not mod.relpath.startswith("pennylane/estimator/") and "wire_manager" not in mod.source and "WireResourceManager" not in mod.source:
            continue
        for f in ix.funcs_in(mod):
            if f.cls is cls:
                continue
            for n in walk_shallow(f.node):
                tgts = []
                if isinstance(n, ast.Assign):
                    tgts = n.targets
                elif isinstance(n, (ast.AugAssign, ast.AnnAssign)):
                    tgts = [n.target]
                for t in tgts:
                    if isinstance(t, ast.Attribute) and t.attr in FIELDS and not (isinstance(t.value, ast.Name) and t.value.id == "self" and f.cls is not None and f.cls is not cls
                                                                                  and not _is_manager_like(f.cls)):
                        n_ext += 1
                        rep.refuted("R-C47-writers", mod.relpath, f.qualname, n,
                                    f"writes the wire counter .{t.attr} outside WireResourceManager, bypassing the non-negativity guards")
    if n_ext == 0:
        rep.proved("R-C47-writers", "pennylane/estimator/**", "no external writer of .zeroed/.any_state")
    from .c47_extra import collapse, extra

    extra(ctx, rep)
    collapse(ctx, rep)
    return rep


def _is_manager_like(c):
    return c.name == CLS


def _unguarded_path(cfg, target, amount, fld, aliases):
    """A path entry -> target node avoiding every guard edge (and where any guard is invalidated by a later write
    to the field, which we treat conservatively as 'guard consumed'), or None."""
    prev = {cfg.entry: None}
    stack = [cfg.entry]
    while stack:
        n = stack.pop()
        if n == target.id:
            out = []
            while n is not None:
                out.append(cfg.nodes[n])
                n = prev[n]
            return out[::-1]
        node = cfg.nodes[n]
        guard_label = None
        if node.kind == "test":
            guard_label = _guard_edge(node.stmt.test, amount, fld, aliases)
        for s, lab in cfg.succ[n]:
            if guard_label is not None and lab == guard_label:
                continue  # this edge establishes the bound: not part of an unguarded path
            if s in prev:
                continue
            prev[s] = n
            stack.append(s)
    return None
