"""C03 — operator arithmetic agrees with matrix arithmetic: the gate-level shortcuts.

``qp.adjoint(op, lazy=False)``, ``qp.pow``, ``Adjoint.decomposition``, ``Pow.decomposition`` and
``simplify`` take the class's own ``adjoint()`` / ``pow(z)``.  Those two methods are compared with
the other declarations the same class makes about itself:

R-C03-adj  (i)   a class with a one-parameter ``generator()`` is ``exp(i p G)``, so its adjoint is the
                 same class at ``-p``; (ii) a class listed in ``attributes.self_inverses`` returns itself
                 unchanged; (iii) no class is both; (iv) the classes whose adjoint is the same class at
                 otherwise transformed parameters are a named table, and where the documented formula is
                 a signed permutation of the parameters it is checked.
R-C03-pow  a class with a one-parameter generator returns ``[Cls(p * z)]``; a class in ``self_inverses``
           reduces ``z % 2``; a class that reduces ``z % N`` claims ``U**N = 1``, which is decided by
           exact Gaussian-rational matrix arithmetic where ``compute_matrix`` is a literal matrix.

R-C03-ctrlorder  where nested controls are flattened (``ctrl(ctrl(A))`` -> one multi-controlled operator) the control
           wires and the control values are each concatenated from an OUTER and a BASE source; the two concatenations
           must list the sources in the same order, otherwise values are attached to the wrong wires and the
           controlled operator no longer has the block matrix of its base.

Only *exact* readings refute: every argument of the returned constructor is evaluated as a polynomial
with rational coefficients in the operator's parameters (and ``z``); anything else (``mod``, ``conj``,
other classes, several returns) is unknown.
"""

from __future__ import annotations

import ast

from .. import opfacts as F
from ..cfg import walk_shallow
from ..core import Report, norm
from ..index import FuncInfo

ADJ = "R-C03-adj"
POW = "R-C03-pow"
CTRL = "R-C03-ctrlorder"

# (iv) same class, parameters transformed otherwise.  "formula": the documented parameter map as
# {parameter: (sign, source parameter)} — checked against the exact reading; None: not a polynomial map.
SAME_CLASS_OTHER = {
    "Rot": ({"phi": (-1, "omega"), "theta": (-1, "theta"), "omega": (-1, "phi")},
            "Rot(phi,theta,omega) = RZ(omega) RY(theta) RZ(phi), so the adjoint is RZ(-phi) RY(-theta) RZ(-omega) = Rot(-omega,-theta,-phi)"),
    "CRot": ({"phi": (-1, "omega"), "theta": (-1, "theta"), "omega": (-1, "phi")},
             "controlled Rot: the adjoint of the target Rot(phi,theta,omega) is Rot(-omega,-theta,-phi)"),
    "RotXZX": ({"phi": (-1, "omega"), "theta": (-1, "theta"), "omega": (-1, "phi")},
               "RotXZX(phi,theta,omega) = RX(omega) RZ(theta) RX(phi): the adjoint reverses and negates the three angles"),
    "U2": (None, "U2(phi,delta)^dagger = U2(pi - delta, pi - phi) up to 2*pi (documented in U2.adjoint; not a polynomial map)"),
    "U3": (None, "U3(theta,phi,delta)^dagger = U3(theta, pi - delta, pi - phi) up to 2*pi (documented in U3.adjoint; not a polynomial map)"),
    "QubitUnitary": (None, "the adjoint is the conjugate transpose of the matrix argument (array algebra, runtime)"),
    "DiagonalQubitUnitary": (None, "the adjoint conjugates the diagonal (array algebra, runtime)"),
    "BlockEncode": (None, "the adjoint block-encodes the conjugate transpose (array algebra, runtime)"),
    "SProd": (None, "the adjoint conjugates the scalar and adjoints the base (symbolic wrapper: not decided, see DESIGN C03 limits)"),
    "Conditional": (None, "the adjoint wraps the adjoint of the inner operator (symbolic wrapper: not decided)"),
}


def _formula_maps(formula):
    return {p: (F.SymPoly.sym(src) if sign > 0 else -F.SymPoly.sym(src)) for p, (sign, src) in formula.items()}


def self_inverse_classes(ix):
    """-> ({ClassInfo fq: (name, ast node)}, AttrSet)"""
    sets = F.attribute_sets(ix)
    if "self_inverses" not in sets:
        from ..core import AnalysisError

        raise AnalysisError(f"{F.ATTRIBUTES_MODULE}: the attribute set self_inverses vanished")
    s = sets["self_inverses"]
    out = {}
    for name, node in zip(s.names, s.nodes):
        c = F.resolve_op_name(ix, name)
        if c is not None:
            out[c.fq] = (name, node)
    return out, s


def _gen1(ix, cls):
    g = F.generator_info(ix, cls)
    if g is None:
        return None
    return g if g.n_params == 1 else None


def _gen_text(g):
    if g.form == "controlled":
        return f"generator() of the controlled {g.base_cls.name} ({_gen_text(g.base)})"
    if g.func is not None:
        return f"generator() defined in {g.defined_in.name} ({g.form})"
    return f"generator ({g.form})"


def check_adjoint(ix, rep, selfinv):
    n = n_gen = n_si = 0
    for cls, kind, _d in F.adjoint_overrides(ix):
        n += 1
        r = F.adjoint_reading(ix, cls)
        mod = cls.module.relpath
        construct = f"{cls.name}.adjoint"
        where = f"{mod}:{construct}"
        rep.analysed(mod, construct)
        g = _gen1(ix, cls)
        in_si = cls.fq in selfinv
        applied = False
        if g is not None:
            applied = True
            n_gen += 1
            if r.exact == "negated":
                rep.proved(ADJ, where, f"(i) one-parameter {_gen_text(g)}; adjoint returns {cls.name}({r.describe()})")
            elif r.exact in ("identical", "other"):
                rep.refuted(ADJ, mod, construct, r.node,
                            f"(i) {cls.name} declares a one-parameter {_gen_text(g)}, i.e. {cls.name}(p) = exp(i p G) and its adjoint is "
                            f"{cls.name}(-p); but adjoint() returns {cls.name}({r.describe()}): the adjoint does not have the "
                            f"conjugate-transpose matrix", cls=cls.fq)
            else:
                rep.unknown(ADJ, where, f"(i) one-parameter generator, adjoint is '{kind}' but not an exact polynomial map ({r.why})")
        if in_si:
            applied = True
            n_si += 1
            name = selfinv[cls.fq][0]
            if r.exact == "identical":
                rep.proved(ADJ, where, f"(ii) '{name}' in self_inverses; adjoint returns {cls.name} with unchanged arguments")
            elif r.exact in ("negated", "other") or kind == "other-class":
                what = f"{cls.name}({r.describe()})" if r.exact else f"another class ({r.detail.get('returns')})"
                rep.refuted(ADJ, mod, construct, r.node,
                            f"(ii) '{name}' is listed in attributes.self_inverses (U U = 1, so U^dagger = U), but {cls.name}.adjoint() returns {what}",
                            cls=cls.fq)
            else:
                rep.unknown(ADJ, where, f"(ii) in self_inverses, adjoint is '{kind}' ({r.why})")
        if applied:
            continue
        # (iv) the named table of same-class-other adjoints
        tab = SAME_CLASS_OTHER.get(cls.name)
        if tab is not None:
            formula, reason = tab
            if formula is not None and r.exact is not None:
                want = _formula_maps(formula)
                if r.maps == want:
                    rep.proved(ADJ, where, f"(iv) documented formula holds: {r.describe()} — {reason}")
                elif set(r.maps) == set(want):
                    rep.refuted(ADJ, mod, construct, r.node,
                                f"(iv) {cls.name}.adjoint() returns {cls.name}({r.describe()}) but the documented adjoint is "
                                f"{cls.name}({', '.join(f'{p} -> {v!r}' for p, v in want.items())}): {reason}", cls=cls.fq)
                else:
                    rep.unknown(ADJ, where, f"(iv) parameters {sorted(r.maps)} differ from the table's {sorted(want)}")
            else:
                rep.exempt(ADJ, where, f"(iv) same class, transformed parameters: {reason}")
            continue
        if r.exact == "other" or (kind == "same-class-other"):
            rep.unknown(ADJ, where, f"adjoint is '{kind}' ({r.describe() or r.why}); no generator, not in self_inverses, not in the documented table: nothing to compare with")
        else:
            rep.exempt(ADJ, where, f"adjoint is '{r.exact or kind}'; the class has no one-parameter generator and is not in self_inverses: no second declaration to compare with")
    return n, n_gen, n_si


def check_pow(ix, rep, selfinv):
    n = n_gen = n_si = n_period = n_period_proved = 0
    for cls, kind, modulus, _d in F.pow_overrides(ix):
        n += 1
        r = F.pow_reading(ix, cls)
        mod = cls.module.relpath
        construct = f"{cls.name}.pow"
        where = f"{mod}:{construct}"
        rep.analysed(mod, construct)
        g = _gen1(ix, cls)
        in_si = cls.fq in selfinv
        applied = False
        if g is not None:
            applied = True
            n_gen += 1
            if r.exact == "scaled":
                rep.proved(POW, where, f"one-parameter {_gen_text(g)}; pow returns [{cls.name}({r.describe()})]")
            elif r.exact in ("other", "identical"):
                rep.refuted(POW, mod, construct, r.node,
                            f"{cls.name} declares a one-parameter {_gen_text(g)}, i.e. {cls.name}(p)**z = exp(i z p G) = {cls.name}(p*z); "
                            f"but pow(z) returns [{cls.name}({r.describe()})]", cls=cls.fq)
            elif kind == "mod" and r.all_reduced:
                rep.refuted(POW, mod, construct, r.node,
                            f"{cls.name} declares a one-parameter {_gen_text(g)} (a continuous rotation), but pow(z) uses the exponent only "
                            f"through z % {modulus}: {cls.name}(p)**{modulus} is not the identity for every p", cls=cls.fq)
            else:
                rep.unknown(POW, where, f"one-parameter generator, pow is '{kind}' but not an exact polynomial map ({r.why})")
        if in_si:
            applied = True
            n_si += 1
            name = selfinv[cls.fq][0]
            if kind == "mod" and r.all_reduced and modulus == 2:
                rep.proved(POW, where, f"'{name}' in self_inverses; every use of the exponent is z % 2")
            elif kind == "mod" and r.all_reduced:
                rep.refuted(POW, mod, construct, r.node,
                            f"'{name}' is listed in attributes.self_inverses (period 2), but {cls.name}.pow reduces the exponent z % {modulus}: "
                            f"the two declarations of the period of {cls.name} disagree"
                            + ("" if modulus % 2 == 0 else f" (and z % {modulus} is wrong for an operator of period 2)"), cls=cls.fq)
            elif r.exact == "scaled":
                rep.refuted(POW, mod, construct, r.node,
                            f"'{name}' is listed in attributes.self_inverses but {cls.name}.pow scales a parameter ({r.describe()})", cls=cls.fq)
            else:
                rep.unknown(POW, where, f"in self_inverses, pow is '{kind}' ({r.why or 'exponent not reduced on every path'})")
        # the period claimed by `z % N`, decided on the exact matrix where there is one
        if kind == "mod" and r.all_reduced and modulus and modulus > 0 and g is None:
            n_period += 1
            m = F.exact_entries(ix, cls)
            if m is None:
                rep.unknown(POW, where + f" [U**{modulus}]", f"pow reduces z % {modulus}; compute_matrix is not an exactly known constant matrix, "
                            f"U**{modulus} = 1 not decided (period recorded for R-C10-sym)")
            elif len(m) > 16:
                rep.unknown(POW, where + f" [U**{modulus}]", "matrix too large")
            elif F.mat_power_is_identity(m, modulus):
                n_period_proved += 1
                rep.proved(POW, where + f" [U**{modulus}]", f"pow reduces z % {modulus} and the exact {len(m)}x{len(m)} matrix satisfies U**{modulus} = 1")
            else:
                rep.refuted(POW, mod, construct, r.node,
                            f"{cls.name}.pow reduces the exponent z % {modulus}, which is valid only if U**{modulus} = 1; the exact matrix of "
                            f"{cls.name}.compute_matrix raised to {modulus} is not the identity, so pow(z) and pow(z + {modulus}) differ from "
                            f"the matrix power", cls=cls.fq)
            applied = True
        if not applied:
            rep.exempt(POW, where, f"pow is '{kind}'; no one-parameter generator, not in self_inverses, no `z % N` reduction: no second declaration to compare with")
    return n, n_gen, n_si, n_period, n_period_proved


# ------------------------------------------------------------------------------------------ ctrlorder
WIRE_KW = ("control", "control_wires")
VALUE_KW = "control_values"
CONTROL_ATTRS = ("control_wires", "control_values", "work_wires")
TRANSPARENT = {"array", "asarray", "cast", "cast_like", "convert_like", "Wires", "list", "tuple", "copy"}  # f(x, ...) has the element order of x


class _Src:
    """one operand of a concatenation: tag OUTER/BASE, its source text, and where the concatenation that placed it is written"""

    __slots__ = ("tag", "text")

    def __init__(self, tag, text):
        self.tag, self.text = tag, text

    def __repr__(self):
        return f"{self.tag}:{self.text}"


class _Seq:
    """ordered sources of a concatenated value + the place (helper function / statement) that fixed the order"""

    def __init__(self, items, origin=None):
        self.items, self.origin = list(items), origin  # origin: (FuncInfo, ast node) of the concatenation

    def tags(self):
        return [x.tag for x in self.items]


def _atom(e, params):
    """OUTER: the function's own control parameter or self.control_*; BASE: <op>.control_* of another operator (op, base, self.base)"""
    if isinstance(e, ast.Attribute) and e.attr in CONTROL_ATTRS:
        owner = e.value
        if isinstance(owner, ast.Name) and owner.id == "self":
            return _Src("OUTER", norm(e))
        if isinstance(owner, (ast.Name, ast.Attribute)):
            return _Src("BASE", norm(e))
        return None
    if isinstance(e, ast.Name) and e.id in params and e.id != "self":
        return _Src("OUTER", e.id)
    return None


def _func_env(ix, f: FuncInfo, env, depth):
    """sequential reading of the simple assignments `x = expr` of a function body (into if-bodies too); an assignment whose
    value does not resolve leaves the previous binding (`if v is None: v = [True] * n` keeps v an OUTER default)"""
    a = f.node.args
    params = {x.arg for x in a.posonlyargs + a.args + a.kwonlyargs}
    env = dict(env)
    stmts = [n for n in ast.walk(f.node) if isinstance(n, ast.Assign) and len(n.targets) == 1 and isinstance(n.targets[0], ast.Name)]
    stmts.sort(key=lambda n: (n.lineno, n.col_offset))
    for st in stmts:
        s = _seq(ix, st.value, f, env, params, depth)
        if s is not None:
            env[st.targets[0].id] = s
    return env, params


def _seq(ix, e, f: FuncInfo, env, params, depth=0):
    """expression -> _Seq of its OUTER/BASE sources in element order, or None"""
    if isinstance(e, ast.Name) and e.id in env:
        return env[e.id]
    at = _atom(e, params)
    if at is not None:
        return _Seq([at])
    if isinstance(e, ast.BinOp) and isinstance(e.op, ast.Add):
        a, b = _seq(ix, e.left, f, env, params, depth), _seq(ix, e.right, f, env, params, depth)
        if a is None or b is None:
            return None
        return _Seq(a.items + b.items, (f, e))
    if isinstance(e, ast.Call) and isinstance(e.func, (ast.Name, ast.Attribute)):
        last = e.func.attr if isinstance(e.func, ast.Attribute) else e.func.id
        if last in ("concatenate", "hstack") and e.args and isinstance(e.args[0], (ast.List, ast.Tuple)):
            parts = [_seq(ix, x, f, env, params, depth) for x in e.args[0].elts]
            if any(p is None for p in parts):
                return None
            return _Seq([i for p in parts for i in p.items], (f, e))
        r = ix.resolve_expr(f.module, e.func)
        if isinstance(r, FuncInfo) and r.module is f.module and r.cls is None and depth < 1:
            return _inline(ix, r, e, f, env, params, depth)
        if last in TRANSPARENT and e.args and not (isinstance(r, FuncInfo) and r.module is f.module):
            return _seq(ix, e.args[0], f, env, params, depth)
    return None


def _inline(ix, helper: FuncInfo, call, f, env, params, depth):
    """same-module helper whose body returns a concatenation of its parameters: parameters are bound to the sequences of
    the arguments; the return paths that resolve must agree"""
    a = helper.node.args
    names = [x.arg for x in a.posonlyargs + a.args]
    henv = {}
    for i, arg in enumerate(call.args):
        if isinstance(arg, ast.Starred) or i >= len(names):
            return None
        s = _seq(ix, arg, f, env, params, depth)
        if s is not None:
            henv[names[i]] = s
    for kw in call.keywords:
        if kw.arg is None:
            return None
        s = _seq(ix, kw.value, f, env, params, depth)
        if s is not None:
            henv[kw.arg] = s
    if len(henv) < 2:
        return None
    henv2, _p = _func_env(ix, helper, henv, depth + 1)
    outs = []
    for n in walk_shallow(helper.node):
        if isinstance(n, ast.Return) and n.value is not None:
            s = _seq(ix, n.value, helper, henv2, set(), depth + 1)
            if s is not None and len(s.items) >= 2:
                outs.append(_Seq(s.items, (helper, n)))
    if not outs or len({tuple(o.tags()) for o in outs}) != 1:
        return None
    return outs[0]


def check_ctrlorder(ix, rep):
    n_sites = n_proved = 0
    for f in ix.functions:
        if VALUE_KW not in f.module.source or not f.module.relpath.startswith("pennylane/"):
            continue
        calls = [n for n in walk_shallow(f.node) if isinstance(n, ast.Call) and any(k.arg == VALUE_KW for k in n.keywords)
                 and any(k.arg in WIRE_KW for k in n.keywords)]
        if not calls:
            continue
        env, params = _func_env(ix, f, {}, 0)
        for call in calls:
            kw = {k.arg: k.value for k in call.keywords if k.arg}
            wexpr = next(kw[k] for k in WIRE_KW if k in kw)
            W, V = _seq(ix, wexpr, f, env, params), _seq(ix, kw[VALUE_KW], f, env, params)
            nw, nv = (len(W.items) if W else 0), (len(V.items) if V else 0)
            if nw < 2 and nv < 2:
                continue  # not a flattening site: one source on each side
            n_sites += 1
            where = f"{f.module.relpath}:{f.qualname} [{norm(call.func)}(...)]"
            rep.analysed(f.module.relpath, f.qualname)
            if nw < 2 or nv < 2:
                rep.unknown(CTRL, where, f"control wires {W.items if W else norm(wexpr)[:50]} / control values "
                            f"{V.items if V else norm(kw[VALUE_KW])[:50]}: one side does not resolve to a concatenation of an outer and a base source")
                continue
            if len(W.items) != len(V.items) or sorted(W.tags()) != sorted(V.tags()):
                rep.unknown(CTRL, where, f"wires {W.items} and values {V.items} are built from different sources")
                continue
            if W.tags() == V.tags():
                n_proved += 1
                rep.proved(CTRL, where, f"control wires = {W.items} and control values = {V.items}: same order of sources")
                continue
            # which side deviates from (OUTER, BASE) — the order every other site of the tree uses
            dev, other = (V, W) if V.tags() != sorted(V.tags(), reverse=True) else (W, V)  # "OUTER" > "BASE"
            what, owhat = ("control values", "control wires") if dev is V else ("control wires", "control values")
            df, dn = dev.origin if dev.origin else (f, call)
            rep.refuted(CTRL, df.module.relpath, df.qualname, dn,
                        f"{df.qualname} concatenates the {what} as {dev.items} while {f.qualname} builds the {owhat} of the same "
                        f"`{norm(call.func)}(...)` call as {other.items}: when nested controls are flattened, the control values of the outer "
                        f"operator are attached to the wires of the inner one and vice versa, so the controlled operator does not have the "
                        f"controlled-block matrix of its base", site=f"{f.module.relpath}:{f.qualname}")
    return n_sites, n_proved


def check(ctx):
    ix = ctx.index
    rep = Report("C03", "the gate-level shortcuts of operator arithmetic — each class's own adjoint() and pow(z) — are consistent with the "
                 "class's generator, with attributes.self_inverses and with the class's own matrix.")
    rep.rule(ADJ, "for every operator class overriding adjoint(): classify the returned expression (same class with every dynamic argument "
             "negated / unchanged / otherwise transformed; another class); (i) one-parameter generator() => negated; (ii) name in "
             "self_inverses => unchanged; (iii) no class is both; (iv) same-class-other adjoints are a named table, signed-permutation "
             "formulas (Rot, CRot, RotXZX) are checked. Only an exact polynomial reading of the constructor arguments refutes.")
    rep.rule(POW, "for every override of pow(self, z): one-parameter generator => returns [Cls(p * z, ...)]; name in self_inverses => every "
             "use of z is `z % 2`; a class reducing `z % N` claims U**N = 1, decided by exact matrix arithmetic where compute_matrix is a "
             "literal Gaussian-rational matrix (S, SX, ISWAP, the Paulis, CNOT, ...).")
    rep.rule(CTRL, "for every call passing both `control=`/`control_wires=` and `control_values=` where a side is a concatenation (`a + b`, "
             "`concatenate([a, b])`, a same-module helper returning such a concatenation of its parameters, inlined one level; array/cast/Wires "
             "wrappers are transparent): classify each operand as OUTER (the function's own control parameter, self.control_*) or BASE "
             "(op.control_*, self.base.control_*); the order of sources must be the same for wires and values => proved, different => refuted "
             "naming the helper/statement that deviates from (OUTER, BASE), unresolved => unknown. The order of work wires is not significant.")
    rep.assume("a parameter of the function that performs the flattening, or self.control_*, denotes the outer controls; <operator>.control_* of "
               "another operator denotes the controls of the base being flattened")
    rep.assume("a class with generator() G and one parameter p is exp(i p G) with G != 0 (the repository's definition of generator)")
    rep.assume("constructor arguments are bound through the resolved __init__ signature; wires arguments are not part of the rules")
    rep.assume("E4 reads literal matrices exactly (1, 1j, 0.5 as written); matrices with opaque constants (1/sqrt(2), exp(i pi/4)) are not decided")
    rep.analysed(F.ATTRIBUTES_MODULE)

    selfinv, aset = self_inverse_classes(ix)
    # (iii)
    for fq, (name, node) in sorted(selfinv.items()):
        cls = F.resolve_op_name(ix, name)
        g = _gen1(ix, cls)
        n = F.n_params(ix, cls)
        where = f"{F.ATTRIBUTES_MODULE}:self_inverses[{name}]"
        if g is not None:
            rep.refuted(ADJ, F.ATTRIBUTES_MODULE, f"self_inverses[{name}]", node,
                        f"(iii) '{name}' is listed in self_inverses but {cls.name} declares a one-parameter {_gen_text(g)}: a continuous rotation "
                        f"is not its own inverse for every parameter value", cls=fq)
        else:
            rep.proved(ADJ, where, f"(iii) {cls.name} has no one-parameter generator (num_params = {n})", nontrivial=False)

    n_adj, n_adj_gen, n_adj_si = check_adjoint(ix, rep, selfinv)
    n_pow, n_pow_gen, n_pow_si, n_period, n_period_proved = check_pow(ix, rep, selfinv)

    n_sites, n_ctrl_proved = check_ctrlorder(ix, rep)
    rep.floor("nested-control flattening sites", n_sites, 4)
    rep.floor("flattening sites with the same order of sources for wires and values", n_ctrl_proved, 4)
    rep.floor("self_inverses names resolved to classes", len(selfinv), 11)
    rep.floor("operator classes overriding adjoint()", n_adj, 64)
    rep.floor("adjoint overrides of one-parameter-generator classes", n_adj_gen, 28)
    rep.floor("adjoint overrides of self_inverses classes", n_adj_si, 11)
    rep.floor("adjoint obligations proved", rep.count(ADJ, "proved"), 53)
    rep.floor("operator classes overriding pow()", n_pow, 40)
    rep.floor("pow overrides of one-parameter-generator classes", n_pow_gen, 20)
    rep.floor("pow overrides of self_inverses classes", n_pow_si, 5)
    rep.floor("pow overrides reducing z % N", n_period, 12)
    rep.floor("z % N periods proved on the exact matrix", n_period_proved, 7)
    from .c03_adj import adjrep
    from .c03_extra import extra

    extra(ctx, rep)
    adjrep(ctx, rep)
    return rep
