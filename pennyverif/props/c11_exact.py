"""R-C11-exactprop — a rule built by wrapping another rule cannot claim more than the wrapped rule does.

Factories such as `_make_adjoint_decomp(base_rule)`, `make_controlled_decomp(base_decomposition)`, `flip_zero_control(inner_decomp)`
register a new rule whose resource function forwards to the wrapped rule's.  If the wrapped rule is registered with
exact=False (its counts are upper bounds / type sets only), the wrapper's counts are no better: it must be registered with
`exact=<wrapped>.exact_resources` (or with exact=False).  Leaving `exact` out (default True) makes every wrapped inexact
rule claim exact counts — the graph solver then trusts counts that the emitted circuits do not meet.
"""

from __future__ import annotations

import ast

from ..core import norm

RULE = "R-C11-exactprop"


def exactprop(ctx, rep):
    ix = ctx.index
    rep.rule(RULE, "every register_resources(...) call inside a factory that wraps a decomposition rule received as a parameter (the new rule's body or "
             "resource function uses that parameter) passes exact=False or exact=<parameter>.exact_resources")
    n = 0
    for f in ix.functions:
        rel = f.module.relpath
        if not rel.startswith("pennylane/") or "/tests/" in rel or f.parent is not None and False:
            continue
        a = f.node.args
        params = [x.arg for x in a.posonlyargs + a.args + a.kwonlyargs]
        if not params or "register_resources" not in f.module.source:
            continue
        regs = []
        for x in ast.walk(f.node):
            if isinstance(x, ast.Call) and norm(x.func).split(".")[-1] == "register_resources":
                regs.append(x)
        if not regs:
            continue
        # nested function definitions of this factory only (a register_resources of a nested factory is judged there)
        inner_defs = [d for d in ast.walk(f.node) if isinstance(d, (ast.FunctionDef, ast.Lambda)) and d is not f.node]
        for call in regs:
            owner_ok = True
            for d in inner_defs:
                if isinstance(d, ast.FunctionDef) and any(y is call for y in ast.walk(d)) and not any(y is call for dd in d.decorator_list for y in ast.walk(dd)):
                    owner_ok = False  # belongs to a nested function's body
            if not owner_ok:
                continue
            # which rule-like parameters does the registered rule use?  (call of the parameter, its _impl, or its compute_resources / _work_wire_spec)
            wrapped = set()
            for p in params:
                for x in ast.walk(f.node):
                    if isinstance(x, ast.Attribute) and isinstance(x.value, ast.Name) and x.value.id == p and x.attr in (
                            "_impl", "compute_resources", "_compute_resources", "_work_wire_spec", "exact_resources", "_conditions", "is_applicable"):
                        wrapped.add(p)
            if not wrapped:
                continue
            n += 1
            rep.analysed(rel, f.qualname)
            kw = next((k for k in call.keywords if k.arg == "exact"), None)
            where = f"{rel}:{f.qualname} `{norm(call)[:60]}`"
            if kw is None or (isinstance(kw.value, ast.Constant) and kw.value.value is True):
                rep.refuted(RULE, rel, f.qualname, f"register_resources(…) wrapping `{sorted(wrapped)[0]}` without exact=",
                            f"the rule built around `{sorted(wrapped)[0]}` is registered as exact ({'exact=True' if kw is not None else 'exact left at its default'}) "
                            "whatever the wrapped rule declares: wrapping an inexact rule (QubitUnitary, SelectPauliRot, BasisRotation …) yields a rule that "
                            "claims exact gate counts which its circuits do not meet", line=call.lineno)
            elif isinstance(kw.value, ast.Constant) and kw.value.value is False:
                rep.proved(RULE, where, "registered as inexact")
            elif any(isinstance(x, ast.Attribute) and x.attr == "exact_resources" and isinstance(x.value, ast.Name) and x.value.id in wrapped
                     for x in ast.walk(kw.value)):
                rep.proved(RULE, where, f"exactness taken from the wrapped rule ({norm(kw.value)})")
            else:
                rep.unknown(RULE, where, f"exact={norm(kw.value)[:40]} not classified")
    rep.floor("rule-wrapping factories", n, 4)
