"""Partial-key memoisation: `if KEY in CACHE: … CACHE[KEY]` / `CACHE[KEY] = VALUE` where KEY contains an object only
through projections (type(x), len(x.a), x.name, x.b) while VALUE is computed from the whole object or from other attributes
of it.  The author of the key believed that x matters (it is in the key) but kept only part of it: two objects that agree on
the projections and differ elsewhere share an entry.  Objects that do not occur in the key at all are the cache designer's
decision and are not judged.
"""

from __future__ import annotations

import ast

from .cfg import walk_shallow
from .core import norm


def _expand(e, defs, depth=0, seen=None):
    """the expression together with the definitions of the local names it reads (all definitions, transitively)"""
    seen = set() if seen is None else seen
    out = [e]
    if depth > 6:
        return out
    for x in ast.walk(e):
        if isinstance(x, ast.Name) and x.id in defs and x.id not in seen:
            seen.add(x.id)
            for d in defs[x.id]:
                if d is not e:
                    out += _expand(d, defs, depth + 1, seen)
    return out


def _uses(exprs, params):
    """{param: set of attribute names read, '*' for a use of the whole object}"""
    out = {}
    for e in exprs:
        parents = {}
        for p in ast.walk(e):
            for c in ast.iter_child_nodes(p):
                parents[c] = p
        for x in ast.walk(e):
            if isinstance(x, ast.Name) and x.id in params and isinstance(x.ctx, ast.Load):
                p = parents.get(x)
                if isinstance(p, ast.Attribute) and p.value is x:
                    out.setdefault(x.id, set()).add(p.attr)
                elif isinstance(p, ast.Call) and isinstance(p.func, ast.Name) and p.func.id in ("type", "len", "id", "isinstance") and x in p.args:
                    out.setdefault(x.id, set()).add(f"{p.func.id}()")
                else:
                    out.setdefault(x.id, set()).add("*")
    return out


def find_partial_key_memos(f):
    """-> list of dict(cache, key, value_stmt, obj, key_attrs, value_attrs) for function f (FuncInfo)"""
    fn = f.node
    a = fn.args
    params = {x.arg for x in a.posonlyargs + a.args + a.kwonlyargs}
    defs = {}
    for st in walk_shallow(fn):
        if isinstance(st, ast.Assign) and len(st.targets) == 1 and isinstance(st.targets[0], ast.Name):
            defs.setdefault(st.targets[0].id, []).append(st.value)
    # loop variables bound from parameters count as objects too
    objs = set(params)
    for n in walk_shallow(fn):
        if isinstance(n, ast.For):
            objs |= {x.id for x in ast.walk(n.target) if isinstance(x, ast.Name)}
    out = []
    stores = [st for st in walk_shallow(fn) if isinstance(st, ast.Assign) and any(isinstance(t, ast.Subscript) for t in st.targets)]
    for st in stores:
        for t in st.targets:
            if not isinstance(t, ast.Subscript):
                continue
            cache = norm(t.value)
            # is the same container looked up in this function?  (key in C / C.get(key) / C[key] load)
            looked = False
            for n in walk_shallow(fn):
                if isinstance(n, ast.Compare) and len(n.ops) == 1 and isinstance(n.ops[0], (ast.In, ast.NotIn)) and norm(n.comparators[0]) == cache:
                    looked = True
                if isinstance(n, ast.Call) and isinstance(n.func, ast.Attribute) and n.func.attr == "get" and norm(n.func.value) == cache:
                    looked = True
            if not looked:
                continue
            key_exprs = _expand(t.slice, defs)
            # the cached value: right-hand side, expanded; plus definitions of names in it
            val_exprs = _expand(st.value, defs)
            ku = _uses(key_exprs, objs)
            vu = _uses(val_exprs, objs)
            # a registry (`D[x.name] = x`) stores the object itself: only computed values are memos
            if (isinstance(st.value, ast.Name) and st.value.id in objs) or not any(isinstance(x, ast.Call) for e_ in val_exprs for x in ast.walk(e_)):
                continue
            # a memo answers from the container instead of computing: some branch returns / re-uses `cache[key]` itself.
            # (collectors such as `snapshots[tag] = [snapshots[tag], new]` read the entry only to extend it)
            answered = False
            for n in walk_shallow(fn):
                if isinstance(n, ast.Return) and n.value is not None:
                    v = n.value.elts[0] if isinstance(n.value, (ast.List, ast.Tuple)) and len(n.value.elts) == 1 else n.value
                    if isinstance(v, ast.Subscript) and norm(v.value) == cache and norm(v.slice) == norm(t.slice):
                        answered = True
                if isinstance(n, ast.Assign) and isinstance(n.value, ast.Subscript) and norm(n.value.value) == cache and norm(n.value.slice) == norm(t.slice) \
                        and len(n.targets) == 1 and isinstance(n.targets[0], ast.Name) and isinstance(st.value, ast.Name) and n.targets[0].id == st.value.id:
                    answered = True
            if not answered:
                # `cached = CACHE.get(key); if cached is not None: return cached`
                got = {n.targets[0].id for n in walk_shallow(fn) if isinstance(n, ast.Assign) and len(n.targets) == 1 and isinstance(n.targets[0], ast.Name)
                       and isinstance(n.value, ast.Call) and isinstance(n.value.func, ast.Attribute) and n.value.func.attr == "get"
                       and norm(n.value.func.value) == cache and n.value.args and norm(n.value.args[0]) == norm(t.slice)}
                answered = any(isinstance(n, ast.Return) and isinstance(n.value, ast.Name) and n.value.id in got for n in walk_shallow(fn))
            if not answered:
                continue
            for obj, kattrs in ku.items():
                if "*" in kattrs or obj in ("self", "cls"):
                    continue  # whole object in the key / the cache owner itself
                vattrs = vu.get(obj, set())
                extra = {x for x in vattrs if x not in kattrs and x not in ("isinstance()",)}
                if extra:
                    out.append(dict(cache=cache, key=norm(t.slice), key_full=[norm(k) for k in key_exprs], stmt=st, obj=obj,
                                    key_attrs=sorted(kattrs), value_attrs=sorted(vattrs), extra=sorted(extra)))
    return out


def report(ix, rep, rule, prefixes, what):
    """apply the partial-key rule to every function of the modules under ``prefixes``; returns the number of memo sites judged"""
    n = 0
    for mod in ix.modules.values():
        if not mod.relpath.startswith(tuple(prefixes)):
            continue
        for f in ix.funcs_in(mod):
            for h in find_partial_key_memos(f):
                n += 1
                rep.analysed(mod.relpath, f.qualname)
                rep.refuted(rule, mod.relpath, f.qualname, f"{h['cache']}[{h['key']}] = … computed from `{h['obj']}`",
                            f"the memo `{h['cache']}` is keyed on `{', '.join(h['key_full'][:2])}`, which contains `{h['obj']}` only through "
                            f"{h['key_attrs']}, but the stored value is computed from {['the whole object' if x == '*' else x for x in h['extra']]} of it: "
                            f"two {what} that agree on the key and differ elsewhere share one entry, and the second one gets the first one's result",
                            line=h["stmt"].lineno)
    return n
