"""CLI: ``python -m pennyverif check <ID> [--tier quick|thorough] [--root /repo]``.

Exit 0: property held on everything analysed (known findings printed as KNOWN-FINDING).
Exit 1: an unlisted refutation; prints ``VIOLATION property=<id> replay=<path>``.
Exit 2: ANALYSIS-ERROR (anchor vanished / floor missed / checker crashed) — never a verdict.
"""

from __future__ import annotations

import argparse
import importlib
import json
import os
import sys
from pathlib import Path

from . import core

CLAIMED = [
    "C01", "C03", "C05", "C06", "C07", "C08", "C09", "C10", "C11", "C13", "C18", "C22", "C23",
    "C31", "C33", "C40", "C41", "C42", "C47", "C61", "C65", "C66", "C67", "C70", "C73", "C74",
]  # fmt: skip


def load_prop(pid):
    try:
        return importlib.import_module(f"pennyverif.props.{pid.lower()}")
    except ModuleNotFoundError as e:
        if e.name and e.name.endswith(pid.lower()):
            return None
        raise


def cmd_check(args):
    root = Path(args.root).resolve()
    tier = args.tier or os.environ.get("VERIF_TIER") or "quick"
    if tier not in ("quick", "thorough"):
        tier = "quick"
    worst = 0
    for pid in args.ids:
        mod = load_prop(pid)
        if mod is None:
            print(f"ANALYSIS-ERROR property={pid} no checker module")
            worst = max(worst, 2)
            continue
        extra = None
        st_ok = True
        if tier == "thorough" and not args.no_selftest:
            from . import selftest

            st_ok, summary = selftest.run_for_property(pid, root, jobs=args.jobs)
            extra = {"selftest": summary}
            print(f"{pid}: self-test { {k: v for k, v in summary.items() if k != 'results'} }")
        if tier == "thorough" and not args.no_selftest:
            # invariance under behaviour-preserving rewrites of the whole package (shift / ast.unparse / renamed locals): recorded
            # in the evidence and printed; it never changes the exit code (a rewrite that trips a rule is a defect of the checker)
            from . import benign

            base, _err = core.analyse(mod.check, root, "quick")
            if base is not None:
                inv = benign.invariance(pid, mod.check, root, base)
                extra["invariance"] = inv
                for row in inv:
                    status = "error: " + row["error"] if "error" in row else (
                        "same refutations" if not row["new_refutations"] else "NEW refutations: " + "; ".join(row["new_refutations"]))
                    print(f"{pid}: invariance under `{row['mode']}` ({row['modules_rewritten']} modules rewritten in memory): {status}")
        code, _ = core.run_check(pid, mod.check, root, tier, write_evidence=not args.no_evidence, extra=extra)
        if code == 0 and not st_ok:
            bad = [r for r in summary["results"] if r["status"] in ("FAIL", "broken", "error")]
            for r in bad:
                print(f"ANALYSIS-ERROR property={pid} self-test variant {r['name']} ({r['kind']}): {r['detail']}")
            code = 2
        worst = max(worst, code)
    return worst


def cmd_replay(args):
    data = json.loads(Path(args.path).read_text())
    pid = data["property"]
    root = Path(args.root or data.get("root") or "/repo").resolve()
    mod = load_prop(pid)
    code, report = core.run_check(pid, mod.check, root, data.get("tier", "quick"), write_evidence=False, quiet=True)
    if report is None:
        return 2
    want = (data["rule"], data["module"], data["construct"], data["statement"])
    hit = [f for f in report.findings if f.key() == want]
    if hit:
        f = hit[0]
        print(f"REPRODUCED property={pid} {f.rule} {f.module}:{f.line} {f.construct}: {f.message}")
        print(f"  construct: {f.statement}")
        return 1
    print(f"NOT-REPRODUCED property={pid} {want[0]} {want[1]} {want[2]} (construct no longer refuted)")
    return 0


def main(argv=None):
    ap = argparse.ArgumentParser(prog="pennyverif")
    sub = ap.add_subparsers(dest="cmd", required=True)
    c = sub.add_parser("check")
    c.add_argument("ids", nargs="+")
    c.add_argument("--tier", default=None)
    c.add_argument("--root", default=os.environ.get("PENNYVERIF_ROOT", "/repo"))
    c.add_argument("--no-evidence", action="store_true")
    c.add_argument("--no-selftest", action="store_true")
    c.add_argument("--jobs", type=int, default=16)
    r = sub.add_parser("replay")
    r.add_argument("path")
    r.add_argument("--root", default=None)
    s = sub.add_parser("selftest")
    s.add_argument("ids", nargs="*")
    s.add_argument("--root", default="/repo")
    s.add_argument("--jobs", type=int, default=16)
    s.add_argument("--list", action="store_true")
    args = ap.parse_args(argv)
    if args.cmd == "check":
        if args.ids == ["all"]:
            args.ids = CLAIMED
        return cmd_check(args)
    if args.cmd == "replay":
        return cmd_replay(args)
    if args.cmd == "selftest":
        from . import selftest

        return selftest.main(args)
    return 2


if __name__ == "__main__":
    sys.stdout.reconfigure(line_buffering=True)
    sys.exit(main())
