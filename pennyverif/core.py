"""Plumbing shared by every check: findings, reports, evidence, known findings, exit codes.

Nothing here (or anywhere in pennyverif) imports ``pennylane``; checks read source text only.
"""

from __future__ import annotations

import ast
import json
import os
import sys
import time
import traceback
from dataclasses import dataclass, field
from pathlib import Path

VERIF_DIR = Path(__file__).resolve().parent.parent
EVIDENCE_DIR = VERIF_DIR / "evidence"
OUT_DIR = VERIF_DIR / "out"
KNOWN_FINDINGS = VERIF_DIR / "known_findings.json"

PROVED = "proved"
REFUTED = "refuted"
UNKNOWN = "unknown"
EXEMPT = "exempt"


class AnalysisError(Exception):
    """An anchor vanished, a floor was missed or a construct is outside what an engine models.

    Always reported as ``ANALYSIS-ERROR`` with exit status 2: never a pass, never a violation.
    """


def norm(node) -> str:
    """Normalised source text of an AST node (position independent; used in finding keys)."""
    if node is None:
        return ""
    if isinstance(node, str):
        return " ".join(node.split())
    try:
        return " ".join(ast.unparse(node).split())
    except Exception:  # pragma: no cover - defensive
        return repr(node)


def first_line(node) -> str:
    """Normalised header of a compound statement / whole text of a simple one (<=160 chars)."""
    if isinstance(node, (ast.FunctionDef, ast.AsyncFunctionDef)):
        return f"def {node.name}(...)"
    if isinstance(node, ast.ClassDef):
        return f"class {node.name}"
    if isinstance(node, (ast.If, ast.While)):
        return f"{type(node).__name__.lower()} {norm(node.test)}"[:160]
    if isinstance(node, ast.For):
        return f"for {norm(node.target)} in {norm(node.iter)}"[:160]
    if isinstance(node, ast.With):
        return ("with " + ", ".join(norm(i) for i in node.items))[:160]
    if isinstance(node, ast.Try):
        return "try"
    return norm(node)[:160]


@dataclass
class Finding:
    rule: str
    module: str  # path relative to the analysed root, e.g. pennylane/ops/qubit/x.py
    construct: str  # qualified construct name, e.g. RX.adjoint
    statement: str  # normalised offending statement / table entry
    message: str
    line: int = 0
    extra: dict = field(default_factory=dict)

    def key(self):
        return (self.rule, self.module, self.construct, self.statement)

    def as_dict(self):
        return {
            "rule": self.rule,
            "module": self.module,
            "construct": self.construct,
            "statement": self.statement,
            "line": self.line,
            "message": self.message,
            "extra": self.extra,
        }


@dataclass
class Instance:
    """One obligation a rule looked at, with its verdict."""

    rule: str
    where: str
    verdict: str
    detail: str = ""
    nontrivial: bool = True

    def as_dict(self):
        d = {"rule": self.rule, "where": self.where, "verdict": self.verdict}
        if self.detail:
            d["detail"] = self.detail
        return d


class Report:
    """Collects what one property check examined and concluded."""

    def __init__(self, property_id: str, clause: str):
        self.property_id = property_id
        self.clause = clause
        self.rules: dict[str, str] = {}
        self.instances: list[Instance] = []
        self.findings: list[Finding] = []
        self.assumptions: list[str] = []
        self.notes: list[str] = []
        self.files: set[str] = set()
        self.functions: set[str] = set()
        self.floors: list[tuple[str, int, int]] = []
        self.extra: dict = {}

    # -- registration -----------------------------------------------------------------------
    def rule(self, rid: str, text: str):
        self.rules[rid] = " ".join(text.split())

    def assume(self, text: str):
        text = " ".join(text.split())
        if text not in self.assumptions:
            self.assumptions.append(text)

    def note(self, text: str):
        self.notes.append(" ".join(text.split()))

    def analysed(self, module_relpath: str, function: str | None = None):
        self.files.add(module_relpath)
        if function:
            self.functions.add(f"{module_relpath}:{function}")

    # -- verdicts ---------------------------------------------------------------------------
    def proved(self, rule, where, detail="", nontrivial=True):
        self.instances.append(Instance(rule, where, PROVED, detail, nontrivial))

    def unknown(self, rule, where, detail=""):
        self.instances.append(Instance(rule, where, UNKNOWN, detail, True))

    def exempt(self, rule, where, reason):
        self.instances.append(Instance(rule, where, EXEMPT, reason, False))

    def refuted(self, rule, module, construct, node_or_text, message, line=0, **extra):
        stmt = first_line(node_or_text) if isinstance(node_or_text, ast.AST) else norm(node_or_text)
        if not line and isinstance(node_or_text, ast.AST):
            line = getattr(node_or_text, "lineno", 0)
        f = Finding(rule, module, construct, stmt, " ".join(str(message).split()), line, extra)
        self.findings.append(f)
        self.instances.append(Instance(rule, f"{module}:{construct}", REFUTED, f.message, True))
        return f

    def floor(self, what: str, got: int, minimum: int):
        """Record a vacuity floor: zero matches where instances were confirmed is an analysis error (exit 2);
        fewer matches than confirmed is recorded as an undecided obligation (see ``analyse``)."""
        self.floors.append((what, got, minimum))

    def count(self, rule=None, verdict=None):
        return sum(
            1
            for i in self.instances
            if (rule is None or i.rule == rule) and (verdict is None or i.verdict == verdict)
        )


# ---------------------------------------------------------------------------------------------
# known findings


def load_known():
    if not KNOWN_FINDINGS.exists():
        return []
    data = json.loads(KNOWN_FINDINGS.read_text())
    return data.get("findings", [])


def match_known(f: Finding, property_id: str, known):
    for k in known:
        if k.get("property") != property_id:
            continue
        if (
            k.get("rule") == f.rule
            and k.get("module") == f.module
            and k.get("construct") == f.construct
            and (k.get("statement") in (None, "", f.statement))
        ):
            return k
    return None


# ---------------------------------------------------------------------------------------------
# running a check


def _write_json(path: Path, obj):
    path.parent.mkdir(parents=True, exist_ok=True)
    tmp = path.with_suffix(path.suffix + f".tmp{os.getpid()}")
    tmp.write_text(json.dumps(obj, indent=1, sort_keys=False, default=str) + "\n")
    os.replace(tmp, path)


def analyse(fn, root: Path, tier: str = "quick", overlay=None, seed=0):
    """Run ``fn(ctx) -> Report``; returns (report, None) or (None, error text)."""
    from .index import get_index  # late: keeps ``core`` importable on its own

    try:
        index = get_index(root, overlay)
        ctx = Ctx(root=root, tier=tier, index=index, seed=seed)
        report: Report = fn(ctx)
        for what, got, minimum in report.floors:
            if got < minimum:
                msg = (
                    f"floor missed for {what}: matched {got}, confirmed by hand {minimum} — "
                    "an anchor moved or a rule went vacuous"
                )
                if got > 0:
                    # fewer instances than were confirmed on the pinned tree, but the rule is not vacuous: code was restructured
                    # (a helper extracted, two branches merged).  The shortfall is recorded as an undecided obligation, it is
                    # neither a pass of the missing instances nor an alarm (benign refactorings by independent agents hit this).
                    report.unknown("floor", what, f"matched {got} instance(s), {minimum} were confirmed on the pinned tree: "
                                   "the others are no longer recognised after a restructuring and are not decided")
                    report.note(msg.replace("floor missed", "soft floor"))
                    continue
                # a refutation names a concrete construct and stands on its own; a rule that matches nothing at all
                # (nothing refuted) must never look like a pass
                if not report.findings:
                    raise AnalysisError(msg)
                report.note(msg)
        return report, None
    except AnalysisError as e:
        return None, str(e)
    except RecursionError:
        return None, "internal error in checker: RecursionError"
    except Exception:  # noqa: BLE001 - a crash must not look like a violation
        return None, "internal error in checker:\n" + traceback.format_exc()


def split_known(report: Report):
    known = load_known()
    unlisted, listed = [], []
    for f in report.findings:
        k = match_known(f, report.property_id, known)
        (listed if k else unlisted).append((f, k))
    return unlisted, listed


def run_check(property_id: str, fn, root: Path, tier: str, write_evidence=True, quiet=False, extra=None):
    """Run ``fn(ctx) -> Report`` and translate into the interface's exit codes.

    Returns (exit_code, report-or-None).
    """
    t0 = time.time()
    seed = int(os.environ.get("VERIF_SEED", "0") or 0)
    out = sys.stdout
    report, err = analyse(fn, root, tier, seed=seed)
    if report is None:
        print(f"ANALYSIS-ERROR property={property_id} {err}", file=out)
        return 2, None
    if extra:
        report.extra.update(extra)

    known = load_known()
    unlisted, listed = [], []
    for f in report.findings:
        k = match_known(f, property_id, known)
        (listed if k else unlisted).append((f, k))

    wall = time.time() - t0
    code = 1 if unlisted else 0

    seen_known = set()
    for f, k in listed:
        kk = f.key()
        if kk in seen_known:
            continue
        seen_known.add(kk)
        print(
            f"KNOWN-FINDING: property={property_id} rule={f.rule} {f.module}:{f.line} "
            f"{f.construct}: {k.get('what') or f.message}",
            file=out,
        )
    replay_paths = []
    for n, (f, _) in enumerate(unlisted):
        rp = OUT_DIR / f"{property_id}-{n:02d}.json"
        _write_json(rp, {"property": property_id, "root": str(root), "tier": tier, **f.as_dict()})
        replay_paths.append(str(rp))
        print(
            f"  {f.rule} {f.module}:{f.line} {f.construct}: {f.message}\n    construct: {f.statement}",
            file=out,
        )
        print(f"VIOLATION property={property_id} replay={rp}", file=out)

    if write_evidence:
        _write_json(EVIDENCE_DIR / f"{property_id}.json", evidence(report, tier, seed, wall, len(unlisted), len(listed), str(root)))
    if not quiet:
        c = {v: report.count(verdict=v) for v in (PROVED, REFUTED, UNKNOWN, EXEMPT)}
        print(
            f"{property_id}: {len(report.instances)} obligations over {len(report.files)} files "
            f"({c[PROVED]} proved, {c[UNKNOWN]} unknown, {c[EXEMPT]} exempt, {c[REFUTED]} refuted "
            f"of which {len(listed)} known) in {wall:.2f}s -> exit {code}",
            file=out,
        )
    return code, report


def evidence(report: Report, tier, seed, wall, n_unlisted, n_listed, root):
    by_rule = {}
    for i in report.instances:
        d = by_rule.setdefault(i.rule, {PROVED: 0, REFUTED: 0, UNKNOWN: 0, EXEMPT: 0})
        d[i.verdict] += 1
    # samples: a few of each verdict per rule, refuted first
    samples, per = [], {}
    order = {REFUTED: 0, UNKNOWN: 1, PROVED: 2, EXEMPT: 3}
    for i in sorted(report.instances, key=lambda i: (order[i.verdict], i.rule)):
        k = (i.rule, i.verdict)
        per[k] = per.get(k, 0) + 1
        if per[k] <= 4:
            samples.append(i.as_dict())
    distinct = len({(i.rule, i.where) for i in report.instances if i.nontrivial and i.verdict != EXEMPT})
    explanation = (
        f"Static analysis of {root}'s source (ast/CFG/class index; pennylane is never imported). "
        f"Clause decided: {report.clause} Rules: "
        + " | ".join(f"{k}: {v}" for k, v in report.rules.items())
    )
    cov = {
        "explanation": explanation,
        "evaluations": len(report.instances),
        "distinct_nontrivial": distinct,
        "rule": "one evaluation = one (rule, construct) obligation extracted from the current source; "
        "non-trivial = the rule had something to decide there (exempt/named exceptions excluded); "
        "verdicts are proved / refuted / unknown and only refuted raises a violation",
        "samples": samples[:40],
        "obligations": len(report.instances),
        "discharged": sum(1 for i in report.instances if i.verdict in (PROVED, EXEMPT)),
        "verdicts_by_rule": by_rule,
        "floors": [{"what": w, "matched": g, "minimum": m} for w, g, m in report.floors],
        "files_analysed": len(report.files),
        "functions_analysed": len(report.functions),
        "files": sorted(report.files)[:80],
        "known_findings_reported": n_listed,
        "notes": report.notes[:60],
        "exhaustive": True,
        **report.extra,
    }
    return {
        "property_id": report.property_id,
        "tier": tier,
        "seed": seed,
        "level": "other",
        "coverage": cov,
        "assumptions": report.assumptions,
        "wall_s": round(wall, 3),
        "violations": n_unlisted,
    }


@dataclass
class Ctx:
    root: Path
    tier: str
    index: object
    seed: int = 0

    @property
    def thorough(self):
        return self.tier == "thorough"
