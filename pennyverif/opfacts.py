"""Facts read off operator classes (shared by C03 / C07 / C10): what ``adjoint()`` and ``pow(z)``
of a class return, classified from their source.

Everything is syntactic over the resolved class (index), nothing is imported or executed.

``classify_adjoint(ix, cls) -> (kind, detail)``
    kind in
      "negated"          ``Cls(-self.p, ..., static args unchanged, wires)``: every DYNAMIC argument under a
                         unary minus or a product with the literal -1; detail["dynamic"] = number of negated arguments
      "identical"        ``Cls(<unchanged arguments>, wires=self.wires)`` / ``copy(self)``
      "same-class-other" same class, arguments transformed otherwise (U2, U3, QubitUnitary ...)
      "other-class"      a different operator class is returned
      "generic"          not overridden below the generic base classes (Operator, Operator2, SymbolicOp, Controlled ...)
      "none"             no ``adjoint`` found at all
      "unknown"          body shape not understood
    detail: dict with "defined_in", "returns", "dynamic", "static", "text".

``classify_pow(ix, cls) -> (kind, modulus, detail)``
    kind in
      "scaled"   ``[Cls(self.p * z, ...)]``: one dynamic argument multiplied by the exponent
      "mod"      the exponent is reduced ``z % N`` with a literal ``N`` (modulus = N)
      "generic" / "none" / "other" / "unknown" as above
"""

from __future__ import annotations

import ast

from .cfg import walk_shallow
from .core import norm
from .index import ClassInfo, FuncInfo

GENERIC_BASES = {
    "Operator", "Operator2", "Operation", "Observable", "Channel", "CVOperation", "CVObservable", "SymbolicOp", "SymbolicOp2",
    "ScalarSymbolicOp", "CompositeOp", "Controlled", "ControlledOp", "Controlled2", "ControlledOp2", "Adjoint", "Adjoint2", "Pow", "Pow2",
}  # fmt: skip


def _is_generic(c: ClassInfo):
    return c.name in GENERIC_BASES and c.module.name.startswith(("pennylane.core", "pennylane.ops.op_math", "pennylane.operation"))


def find_override(cls: ClassInfo, name: str):
    """-> (defining class, FuncInfo) of the most specific definition below the generic bases,
    ("generic", class) when only a generic base defines it, (None, None) when nobody does"""
    generic = None
    for c in cls.mro():
        f = c.own_method(name)
        if f is None:
            continue
        if _is_generic(c):
            generic = generic or c
            continue
        return c, f
    if generic is not None:
        return "generic", generic
    return None, None


def _body(f: FuncInfo):
    return [s for s in f.node.body if not (isinstance(s, ast.Expr) and isinstance(s.value, ast.Constant))]


def _locals(stmts):
    """simple local bindings ``x = expr`` / ``(x,) = expr`` / ``a, b = expr`` before the return"""
    env = {}
    for st in stmts:
        if isinstance(st, ast.Assign) and len(st.targets) == 1:
            t = st.targets[0]
            if isinstance(t, ast.Name):
                env[t.id] = st.value
            elif isinstance(t, (ast.Tuple, ast.List)):
                for i, e in enumerate(t.elts):
                    if isinstance(e, ast.Name):
                        env[e.id] = ast.Subscript(value=st.value, slice=ast.Constant(value=i), ctx=ast.Load())
    return env


def _subst(e, env, depth=0):
    if isinstance(e, ast.Name) and e.id in env and depth < 5:
        return _subst(env[e.id], env, depth + 1)
    return e


def _self_derived(e, selfname="self"):
    """an expression reading the operator's own data: self.p, self.data[0], self.parameters[i],
    self.arguments['k'], self.hyperparameters['k']"""
    while isinstance(e, (ast.Attribute, ast.Subscript)):
        e = e.value
    return isinstance(e, ast.Name) and e.id == selfname


def _is_static_source(e):
    t = norm(e)
    return ".hyperparameters" in t or "static_args" in t


def _neg_of(e):
    """X if e is ``-X`` / ``-1 * X`` / ``X * -1`` / ``X * (-1)`` else None"""
    if isinstance(e, ast.UnaryOp) and isinstance(e.op, ast.USub):
        return e.operand

    def minus_one(x):
        return (isinstance(x, ast.UnaryOp) and isinstance(x.op, ast.USub) and isinstance(x.operand, ast.Constant) and x.operand.value in (1, 1.0)) or (
            isinstance(x, ast.Constant) and x.value in (-1, -1.0))

    if isinstance(e, ast.BinOp) and isinstance(e.op, ast.Mult):
        if minus_one(e.left):
            return e.right
        if minus_one(e.right):
            return e.left
    return None


def _ctor_names(ix, cls):
    from .rulescan import get_scanner

    sc = get_scanner(ix)
    return sc.ctor_params(cls), sc.wire_argnames(cls)


def _literal_names(cls, attr):
    c, v = cls.lookup(attr)
    if isinstance(v, (ast.Tuple, ast.List)) and all(isinstance(x, ast.Constant) and isinstance(x.value, str) for x in v.elts):
        return tuple(x.value for x in v.elts)
    return None


def _single_return(stmts):
    rets = [n for st in stmts for n in walk_shallow(st) if isinstance(n, ast.Return)]
    return rets


def _returned_ctor(ix, module, cls, value):
    """(class returned | None, call) for ``Cls(...)`` / ``type(self)(...)`` / ``self.__class__(...)``"""
    if not isinstance(value, ast.Call):
        return None, None
    fn = value.func
    if isinstance(fn, ast.Call) and isinstance(fn.func, ast.Name) and fn.func.id == "type" and fn.args and norm(fn.args[0]) == "self":
        return cls, value
    if norm(fn) == "self.__class__":
        return cls, value
    if isinstance(fn, (ast.Name, ast.Attribute)):
        r = ix.resolve_expr(module, fn)
        if isinstance(r, ClassInfo):
            return r, value
    return None, value


def _same_class(a: ClassInfo, b: ClassInfo):
    return a is b or (a.name == b.name and a.module is b.module)


def _split_args(ix, cls, call):
    """-> list of (param name | None, expr) for the non-wire arguments, or None when a star-arg hides them"""
    names, wnames = _ctor_names(ix, cls)
    out = []
    for i, a in enumerate(call.args):
        if isinstance(a, ast.Starred):
            return None
        nm = names[i] if names and i < len(names) else None
        if nm in wnames or nm == "wires" or (nm is None and norm(a) in ("self.wires",)):
            continue
        out.append((nm, a))
    for kw in call.keywords:
        if kw.arg is None:
            return None
        if kw.arg in wnames or kw.arg == "wires" or kw.arg.endswith("wires"):
            continue
        out.append((kw.arg, kw.value))
    return out


def classify_adjoint(ix, cls: ClassInfo):
    c, f = find_override(cls, "adjoint")
    if c is None:
        return "none", {"defined_in": None, "text": ""}
    if c == "generic":
        return "generic", {"defined_in": f.name, "text": ""}
    stmts = _body(f)
    detail = {"defined_in": c.name, "text": " ; ".join(norm(s) for s in stmts)[:200], "node": f.node, "module": c.module.relpath}
    env = _locals(stmts)
    rets = _single_return(stmts)
    if len(rets) != 1 or rets[0].value is None:
        if rets and all(isinstance(r.value, ast.Call) for r in rets):
            ks = {(_returned_ctor(ix, c.module, cls, r.value)[0] or cls).name for r in rets}
            if ks == {cls.name}:
                return "same-class-other", {**detail, "returns": cls.name}
        return "unknown", detail
    v = rets[0].value
    t = norm(v)
    if t in ("copy(self)", "copy.copy(self)", "copy(self).queue()", "copy.copy(self).queue()", "self"):
        return "identical", {**detail, "returns": cls.name, "dynamic": 0}
    k, call = _returned_ctor(ix, c.module, cls, v)
    if k is None:
        return "unknown", detail
    detail["returns"] = k.name
    if not _same_class(k, cls) and not _same_class(k, c):
        return "other-class", detail
    args = _split_args(ix, k, call)
    if args is None:
        return "unknown", detail
    dyn_names = _literal_names(cls, "dynamic_argnames")
    n_neg = n_same = n_other = 0
    n_static = 0
    for nm, a in args:
        a = _subst(a, env)
        neg = _neg_of(a)
        inner = _subst(neg, env) if neg is not None else a
        derived = _self_derived(inner)
        static = (dyn_names is not None and nm is not None and nm not in dyn_names) or _is_static_source(inner) or (
            dyn_names is None and isinstance(inner, ast.Subscript) and "arguments" in norm(inner.value) and False)
        if neg is not None and derived:
            n_neg += 1
        elif neg is None and derived:
            if static:
                n_static += 1
            else:
                n_same += 1
        elif isinstance(a, ast.Constant):
            n_static += 1
        else:
            n_other += 1
    detail.update(dynamic=n_neg, static=n_static, unchanged=n_same)
    if n_other:
        return "same-class-other", detail
    if n_neg and not n_same:
        return "negated", detail
    if not n_neg:
        return "identical", detail
    return "same-class-other", detail  # some dynamic arguments negated, others not


def _mods(f: FuncInfo, zname):
    """literal moduli N of every ``z % N`` in the function"""
    out = []
    for n in ast.walk(f.node):
        if isinstance(n, ast.BinOp) and isinstance(n.op, ast.Mod) and isinstance(n.left, ast.Name) and n.left.id == zname:
            if isinstance(n.right, ast.Constant) and isinstance(n.right.value, int):
                out.append(n.right.value)
            else:
                out.append(None)
    return out


def classify_pow(ix, cls: ClassInfo):
    c, f = find_override(cls, "pow")
    if c is None:
        return "none", None, {"defined_in": None, "text": ""}
    if c == "generic":
        return "generic", None, {"defined_in": f.name, "text": ""}
    stmts = _body(f)
    detail = {"defined_in": c.name, "text": " ; ".join(norm(s) for s in stmts)[:200], "node": f.node, "module": c.module.relpath}
    a = f.node.args.args
    zname = a[1].arg if len(a) > 1 else "z"
    mods = _mods(f, zname)
    if mods:
        if None not in mods and len(set(mods)) == 1:
            return "mod", mods[0], detail
        return "other", None, detail
    env = _locals(stmts)
    rets = _single_return(stmts)
    if len(rets) != 1 or rets[0].value is None:
        return "other" if rets else "unknown", None, detail
    v = rets[0].value
    if isinstance(v, (ast.List, ast.Tuple)) and len(v.elts) == 1:
        k, call = _returned_ctor(ix, c.module, cls, v.elts[0])
        if k is not None and (_same_class(k, cls) or _same_class(k, c)):
            args = _split_args(ix, k, call)
            if args is not None:
                n_scaled = n_same = n_other = 0
                for nm, x in args:
                    x = _subst(x, env)
                    if isinstance(x, ast.BinOp) and isinstance(x.op, ast.Mult):
                        l, r = _subst(x.left, env), _subst(x.right, env)
                        if (isinstance(r, ast.Name) and r.id == zname and _self_derived(l)) or (
                            isinstance(l, ast.Name) and l.id == zname and _self_derived(r)):
                            n_scaled += 1
                            continue
                    if _self_derived(x) or isinstance(x, ast.Constant):
                        n_same += 1
                    else:
                        n_other += 1
                detail.update(scaled=n_scaled, unchanged=n_same)
                if n_scaled == 1 and not n_other:
                    return "scaled", None, detail
                if not n_scaled and not n_other:
                    return "identical", None, detail
    return "other", None, detail


def adjoint_overrides(ix, scanner=None):
    """every operator class with its own ``adjoint`` -> (cls, kind, detail)"""
    from .rulescan import get_scanner

    sc = scanner or get_scanner(ix)
    out = []
    for c in ix.classes:
        if sc.is_operator(c) and c.own_method("adjoint") is not None and not _is_generic(c):
            k, d = classify_adjoint(ix, c)
            out.append((c, k, d))
    return out


def pow_overrides(ix, scanner=None):
    from .rulescan import get_scanner

    sc = scanner or get_scanner(ix)
    out = []
    for c in ix.classes:
        if sc.is_operator(c) and c.own_method("pow") is not None and not _is_generic(c):
            k, m, d = classify_pow(ix, c)
            out.append((c, k, m, d))
    return out


# =============================================================================================
# Extension (C03 / C07 / C08): exact readings of adjoint()/pow(z), generators, attribute sets,
# operator-name resolution, exact constant matrices.  Everything below is additive: the functions
# above keep their behaviour and signatures.
#
# ``adjoint_reading`` / ``pow_reading`` refine ``classify_adjoint`` / ``classify_pow``: the coarse
# kind says what the source *looks like*; the reading additionally evaluates every argument handed
# to the returned constructor as a polynomial with rational coefficients in the operator's own
# dynamic parameters (and the exponent ``z``).  Only such an *exact* reading can refute
# (``RX(self.phi)`` is provably not ``RX(-self.phi)``; ``RX(mod(-self.phi, 4 * pi))`` is not
# evaluable and stays undecided).

from dataclasses import dataclass, field  # noqa: E402
from fractions import Fraction  # noqa: E402


class SymPoly:
    """polynomial with Fraction coefficients; monomial = sorted tuple of symbol names"""

    __slots__ = ("terms",)

    def __init__(self, terms=None):
        self.terms = {m: c for m, c in (terms or {}).items() if c}

    @staticmethod
    def const(c):
        return SymPoly({(): Fraction(c)})

    @staticmethod
    def sym(name):
        return SymPoly({(name,): Fraction(1)})

    def __eq__(self, o):
        return isinstance(o, SymPoly) and self.terms == o.terms

    def __hash__(self):
        return hash(frozenset(self.terms.items()))

    def __add__(self, o):
        t = dict(self.terms)
        for m, c in o.terms.items():
            t[m] = t.get(m, 0) + c
        return SymPoly(t)

    def __neg__(self):
        return SymPoly({m: -c for m, c in self.terms.items()})

    def __sub__(self, o):
        return self + (-o)

    def __mul__(self, o):
        t = {}
        for m1, c1 in self.terms.items():
            for m2, c2 in o.terms.items():
                m = tuple(sorted(m1 + m2))
                t[m] = t.get(m, 0) + c1 * c2
        return SymPoly(t)

    def as_const(self):
        if not self.terms:
            return Fraction(0)
        if set(self.terms) == {()}:
            return self.terms[()]
        return None

    def symbols(self):
        return {s for m in self.terms for s in m}

    def __repr__(self):
        if not self.terms:
            return "0"
        out = []
        for m, c in sorted(self.terms.items()):
            body = "*".join(m)
            if not m:
                out.append(str(c))
            elif c == 1:
                out.append(body)
            elif c == -1:
                out.append("-" + body)
            else:
                out.append(f"{c}*{body}")
        return " + ".join(out).replace("+ -", "- ")


_ARG_VIEWS = ("arguments", "dynamic_args", "static_args", "compilable_args", "hybrid_args", "hyperparameters")
_DATA_VIEWS = ("parameters", "data")


def _num_literal(node):
    if isinstance(node, ast.Constant) and isinstance(node.value, (int, float)) and not isinstance(node.value, bool):
        v = node.value
        if isinstance(v, float):
            if v != v or v in (float("inf"), float("-inf")):
                return None
            return Fraction(repr(v))
        return Fraction(v)
    return None


def sym_eval(e, env, dyn_names, zname=None, depth=0):
    """expression -> SymPoly over the symbols ``<argument name>`` / ``#i`` (i-th datum when the
    dynamic names are unknown) / ``z``; None when the expression is outside +,-,*,/const."""
    if depth > 12:
        return None
    c = _num_literal(e)
    if c is not None:
        return SymPoly.const(c)
    if isinstance(e, ast.Name):
        if zname is not None and e.id == zname and e.id not in env:
            return SymPoly.sym("z")
        if e.id in env:
            return sym_eval(env[e.id], env, dyn_names, zname, depth + 1)
        return None
    if isinstance(e, ast.Attribute) and isinstance(e.value, ast.Name) and e.value.id == "self":
        if e.attr in _ARG_VIEWS + _DATA_VIEWS:
            return None
        return SymPoly.sym(e.attr)
    if isinstance(e, ast.Subscript):
        v = e.value
        if isinstance(v, ast.Name) and v.id in env:
            v = env[v.id]
        if isinstance(v, ast.Attribute) and isinstance(v.value, ast.Name) and v.value.id == "self":
            k = e.slice
            if v.attr in _ARG_VIEWS and isinstance(k, ast.Constant) and isinstance(k.value, str):
                return SymPoly.sym(k.value)
            if v.attr in _DATA_VIEWS and isinstance(k, ast.Constant) and isinstance(k.value, int) and not isinstance(k.value, bool):
                i = k.value
                if dyn_names is not None:
                    if -len(dyn_names) <= i < len(dyn_names):
                        return SymPoly.sym(dyn_names[i])
                    return None
                return SymPoly.sym(f"#{i}") if i >= 0 else None
        if isinstance(v, (ast.Tuple, ast.List)) and isinstance(e.slice, ast.Constant) and isinstance(e.slice.value, int):
            i = e.slice.value
            if -len(v.elts) <= i < len(v.elts) and not any(isinstance(x, ast.Starred) for x in v.elts):
                return sym_eval(v.elts[i], env, dyn_names, zname, depth + 1)
        return None
    if isinstance(e, ast.UnaryOp) and isinstance(e.op, (ast.USub, ast.UAdd)):
        a = sym_eval(e.operand, env, dyn_names, zname, depth + 1)
        if a is None:
            return None
        return -a if isinstance(e.op, ast.USub) else a
    if isinstance(e, ast.BinOp) and isinstance(e.op, (ast.Add, ast.Sub, ast.Mult, ast.Div)):
        a = sym_eval(e.left, env, dyn_names, zname, depth + 1)
        b = sym_eval(e.right, env, dyn_names, zname, depth + 1)
        if a is None or b is None:
            return None
        if isinstance(e.op, ast.Add):
            return a + b
        if isinstance(e.op, ast.Sub):
            return a - b
        if isinstance(e.op, ast.Mult):
            return a * b
        d = b.as_const()
        if d is None or not d:
            return None
        return a * SymPoly.const(1 / d)
    return None


def _int_literal_attr(cls, name):
    _c, v = cls.lookup(name)
    if isinstance(v, ast.Constant) and isinstance(v.value, int) and not isinstance(v.value, bool):
        return v.value
    return None


def _is_operator2(cls):
    return any(c.name == "Operator2" and c.module.name.startswith("pennylane.core.operator") for c in cls.mro())


def _has_own_init(cls):
    c, _f = find_override(cls, "__init__")
    return c is not None and c != "generic"


def _names_literal(cls, attr):
    """tuple of names of a literal tuple/list of strings — or of a bare string, which the operator base
    class normalises to a 1-tuple in ``__init_subclass__`` (``SingleExcitation.dynamic_argnames = "phi"``)"""
    _c, v = cls.lookup(attr)
    if isinstance(v, ast.Constant) and isinstance(v.value, str):
        return (v.value,)
    if isinstance(v, (ast.Tuple, ast.List)) and all(isinstance(x, ast.Constant) and isinstance(x.value, str) for x in v.elts):
        return tuple(x.value for x in v.elts)
    return None


def dynamic_params(ix, cls: ClassInfo):
    """names of the numerical (dynamic) constructor arguments, in ``data`` order; None when unknown.
    Operator2 lineage: the literal ``dynamic_argnames`` (base default ``()``); legacy lineage: the
    first ``num_params`` positional parameters of ``__init__`` — ``#0, #1, ...`` when the class has
    no ``__init__`` of its own (``Operator.__init__(self, *params, wires=None, id=None)``)."""
    if _is_operator2(cls):
        return _names_literal(cls, "dynamic_argnames")
    n = _int_literal_attr(cls, "num_params")
    if n is None:
        return None
    if n == 0:
        return ()
    if not _has_own_init(cls):
        return tuple(f"#{i}" for i in range(n))
    names, wnames = _ctor_names(ix, cls)
    if names is None:
        return None
    names = [x for x in names if x not in wnames and x != "wires"]
    if len(names) < n:
        return None
    return tuple(names[:n])


def n_params(ix, cls: ClassInfo):
    """declared number of trainable parameters: literal ``num_params``, else len(dynamic names)"""
    n = _int_literal_attr(cls, "num_params")
    if n is not None:
        return n
    d = dynamic_params(ix, cls)
    return None if d is None else len(d)


@dataclass
class Reading:
    kind: str  # the coarse kind of classify_adjoint / classify_pow
    exact: str | None = None  # "negated" | "identical" | "scaled" | "other" | None (not evaluable)
    maps: dict = field(default_factory=dict)  # dynamic parameter -> SymPoly | None
    modulus: int | None = None
    all_reduced: bool = False  # pow: every use of z is under `% modulus`
    func: FuncInfo | None = None
    defined_in: ClassInfo | None = None
    node: ast.AST | None = None  # the returned expression (or the def)
    why: str = ""
    detail: dict = field(default_factory=dict)

    def describe(self):
        if not self.maps:
            return self.why
        return ", ".join(f"{p} -> {v!r}" if v is not None else f"{p} -> ?" for p, v in self.maps.items())


def _split_args_indexed(ix, cls, call):
    """``_split_args`` with the fallback name ``#i`` for the i-th positional argument of a legacy class
    that has no ``__init__`` of its own (its positional arguments are its parameters, in order)"""
    if _is_operator2(cls) or _has_own_init(cls):
        return _split_args(ix, cls, call)
    out = []
    for i, a in enumerate(call.args):
        if isinstance(a, ast.Starred):
            return None
        out.append((f"#{i}", a))
    for kw in call.keywords:
        if kw.arg is None:
            return None
        if kw.arg == "wires" or kw.arg.endswith("wires") or kw.arg == "id":
            continue
        out.append((kw.arg, kw.value))
    return out


def _exact_maps(ix, cls, k, call, env, zname):
    """-> (maps, statics_unchanged, why) for a same-class constructor call"""
    args = _split_args_indexed(ix, k, call)
    if args is None:
        return None, False, "star-arguments hide the constructor arguments"
    dyn = dynamic_params(ix, cls)
    if dyn is None:
        return None, False, "dynamic parameter names of the class are not declared literally"
    maps = {}
    statics_ok = True
    for nm, a in args:
        if nm is None:
            return None, False, "constructor signature not resolved (positional argument without a name)"
        v = sym_eval(a, env, dyn, zname)
        if nm in dyn:
            if nm in maps:
                return None, False, f"argument {nm} passed twice"
            maps[nm] = v
        elif v is None or v != SymPoly.sym(nm):
            statics_ok = False
    for p in dyn:
        if p not in maps:
            return None, False, f"dynamic argument {p} is not passed to the constructor"
    return {p: maps[p] for p in dyn}, statics_ok, ""


def adjoint_reading(ix, cls: ClassInfo) -> Reading:
    kind, detail = classify_adjoint(ix, cls)
    c, f = find_override(cls, "adjoint")
    if c is None or c == "generic":
        return Reading(kind, why="adjoint is not overridden below the generic base classes", detail=detail)
    r = Reading(kind, func=f, defined_in=c, node=f.node, detail=detail)
    stmts = _body(f)
    rets = _single_return(stmts)
    if len(rets) != 1 or rets[0].value is None:
        r.why = f"{len(rets)} return statements"
        return r
    r.node = rets[0]
    if kind == "identical" and not isinstance(rets[0].value, ast.Call):
        r.exact = "identical"
        return r
    k, call = _returned_ctor(ix, c.module, cls, rets[0].value)
    if k is None or not (_same_class(k, cls) or _same_class(k, c)):
        r.why = "does not return a constructor call of the same class"
        if kind == "identical":  # copy(self)
            r.exact = "identical"
        return r
    env = _locals(stmts)
    maps, statics_ok, why = _exact_maps(ix, cls, k, call, env, None)
    if maps is None:
        r.why = why
        return r
    r.maps = maps
    if any(v is None for v in maps.values()):
        r.why = "an argument is not a polynomial in the operator's parameters"
        return r
    if not statics_ok:
        r.why = "a static argument is changed or not evaluable"
        return r
    if all(v == SymPoly.sym(p) for p, v in maps.items()):
        r.exact = "identical"
    elif all(v == -SymPoly.sym(p) for p, v in maps.items()):
        r.exact = "negated"
    else:
        r.exact = "other"
    return r


def _z_uses(f: FuncInfo, zname):
    """(moduli of `z % N` occurrences (None for a non-literal N), number of loads of z outside them)"""
    mods, raw = [], 0
    under = set()
    for n in ast.walk(f.node):
        if isinstance(n, ast.BinOp) and isinstance(n.op, ast.Mod) and isinstance(n.left, ast.Name) and n.left.id == zname:
            under.add(id(n.left))
            if isinstance(n.right, ast.Constant) and isinstance(n.right.value, int) and not isinstance(n.right.value, bool):
                mods.append(n.right.value)
            else:
                mods.append(None)
    for n in ast.walk(f.node):
        if isinstance(n, ast.Name) and n.id == zname and isinstance(n.ctx, ast.Load) and id(n) not in under:
            raw += 1
    return mods, raw


def pow_reading(ix, cls: ClassInfo) -> Reading:
    kind, modulus, detail = classify_pow(ix, cls)
    c, f = find_override(cls, "pow")
    if c is None or c == "generic":
        return Reading(kind, why="pow is not overridden below the generic base classes", detail=detail)
    r = Reading(kind, modulus=modulus, func=f, defined_in=c, node=f.node, detail=detail)
    a = f.node.args.args
    zname = a[1].arg if len(a) > 1 else "z"
    mods, raw = _z_uses(f, zname)
    if mods:
        r.all_reduced = raw == 0 and None not in mods and len(set(mods)) == 1
        for n in ast.walk(f.node):
            if isinstance(n, ast.BinOp) and isinstance(n.op, ast.Mod) and isinstance(n.left, ast.Name) and n.left.id == zname:
                r.node = n
                break
        return r
    stmts = _body(f)
    rets = _single_return(stmts)
    if len(rets) != 1 or rets[0].value is None:
        r.why = f"{len(rets)} return statements"
        return r
    r.node = rets[0]
    v = rets[0].value
    if not (isinstance(v, (ast.List, ast.Tuple)) and len(v.elts) == 1):
        r.why = "does not return a one-element list"
        return r
    k, call = _returned_ctor(ix, c.module, cls, v.elts[0])
    if k is None or not (_same_class(k, cls) or _same_class(k, c)):
        r.why = "does not return a constructor call of the same class"
        return r
    env = _locals(stmts)
    maps, statics_ok, why = _exact_maps(ix, cls, k, call, env, zname)
    if maps is None:
        r.why = why
        return r
    r.maps = maps
    if any(x is None for x in maps.values()):
        r.why = "an argument is not a polynomial in the operator's parameters and z"
        return r
    if not statics_ok:
        r.why = "a static argument is changed or not evaluable"
        return r
    z = SymPoly.sym("z")
    if maps and all(x == SymPoly.sym(p) * z for p, x in maps.items()):
        r.exact = "scaled"
    elif all(x == SymPoly.sym(p) for p, x in maps.items()):
        r.exact = "identical"
    else:
        r.exact = "other"
    return r


# ---------------------------------------------------------------------------------------------
# generators

PAULI_LETTER = {"PauliX": "X", "PauliY": "Y", "PauliZ": "Z", "Identity": "I"}
_CONTROLLED_GENERIC = {"Controlled2", "ControlledOp2", "Controlled", "ControlledOp"}


@dataclass
class GeneratorInfo:
    cls: ClassInfo
    defined_in: ClassInfo | None
    func: FuncInfo | None
    form: str  # "pauli" | "projector" | "hermitian-diag" | "hermitian" | "sparse" | "controlled" | "other"
    terms: list = field(default_factory=list)  # pauli: [(Fraction | None, word)], word = tuple of (wire text, letter); ("*", L) = L on every wire; ("?", "?") = word taken from an argument
    bits: list | None = None  # projector basis state
    base: "GeneratorInfo | None" = None  # controlled: the generator of the base operator
    base_cls: ClassInfo | None = None
    n_params: int | None = None
    node: ast.AST | None = None
    why: str = ""

    @property
    def single(self):
        """(coefficient, word) of a single-term Pauli generator, else None"""
        if self.form == "pauli" and len(self.terms) == 1:
            return self.terms[0]
        return None

    def letters(self):
        """set of non-identity Pauli letters the generator is built from (terms with a zero literal
        coefficient and identical words with cancelling coefficients are dropped); None when some word
        is not known.  Projector / diagonal Hermitian forms are functions of Z."""
        if self.form in ("projector", "hermitian-diag"):
            return {"Z"}
        if self.form == "controlled":
            if self.base is None:
                return None
            b = self.base.letters()
            return None if b is None else b | {"Z"}
        if self.form != "pauli":
            return None
        acc = {}
        for c, w in self.terms:
            if any(l == "?" for _, l in w):
                return None
            if c is None:
                return None
            key = tuple(sorted((k, l) for k, l in w if l != "I"))
            acc[key] = acc.get(key, 0) + c
        out = set()
        for key, c in acc.items():
            if c:
                out |= {l for _, l in key}
        return out


def _callee_name(ix, module, fn):
    r = ix.resolve_expr(module, fn) if isinstance(fn, (ast.Name, ast.Attribute)) else None
    if isinstance(r, (ClassInfo, FuncInfo)):
        return r.name, r
    if isinstance(fn, ast.Attribute):
        return fn.attr, None
    if isinstance(fn, ast.Name):
        return fn.id, None
    return None, None


def _pauli_word(ix, module, e, env, depth=0):
    """expression -> tuple of (wire text, letter) or None"""
    e = _subst(e, env)
    if depth > 8:
        return None
    if isinstance(e, ast.BinOp) and isinstance(e.op, ast.MatMult):
        a = _pauli_word(ix, module, e.left, env, depth + 1)
        b = _pauli_word(ix, module, e.right, env, depth + 1)
        return None if a is None or b is None else a + b
    if not isinstance(e, ast.Call):
        return None
    name, r = _callee_name(ix, module, e.func)
    if isinstance(r, ClassInfo) and r.name in PAULI_LETTER:
        w = None
        for kw in e.keywords:
            if kw.arg == "wires":
                w = kw.value
        if w is None and e.args:
            w = e.args[0]
        return ((norm(_subst(w, env)) if w is not None else "", PAULI_LETTER[r.name]),)
    if name == "reduce" and len(e.args) >= 2:  # functools.reduce(matmul, [PauliZ(w) for w in self.wires])
        op, seq = e.args[0], e.args[1]
        if norm(op).split(".")[-1] in ("matmul",) and isinstance(seq, (ast.ListComp, ast.GeneratorExp)) and len(seq.generators) == 1:
            g = seq.generators[0]
            if norm(g.iter) == "self.wires" and not g.ifs:
                w = _pauli_word(ix, module, seq.elt, {}, depth + 1)
                if w is not None and len(w) == 1:
                    return (("*", w[0][1]),)
        return None
    if name == "string_to_pauli_word":
        return (("?", "?"),)
    return None


def _number(e, env):
    v = sym_eval(_subst(e, env), env, None)
    return None if v is None else v.as_const()


def _ctrl_base_class(ix, cls):
    """class of the operator handed to ``super().__init__(<Base>(...), ...)`` by a Controlled2 subclass"""
    f = cls.own_method("__init__")
    if f is None:
        return None
    for n in walk_shallow(f.node):
        if isinstance(n, ast.Call) and isinstance(n.func, ast.Attribute) and n.func.attr == "__init__" and norm(n.func.value) == "super()" and n.args:
            b = n.args[0]
            if isinstance(b, ast.Call):
                r = ix.resolve_expr(f.module, b.func) if isinstance(b.func, (ast.Name, ast.Attribute)) else None
                if isinstance(r, ClassInfo):
                    return r
    return None


def generator_info(ix, cls: ClassInfo, _depth=0):
    """parsed ``generator()`` of the class (own, inherited below the generic bases, or — for a
    ``Controlled2`` subclass — projectors times the generator of the base operator); None when the class
    has no generator."""
    c, f = find_override(cls, "generator")
    np_ = n_params(ix, cls)
    if c is None:
        return None
    if c == "generic":
        if f.name in _CONTROLLED_GENERIC and _depth < 3:
            b = _ctrl_base_class(ix, cls)
            if b is None:
                return None
            bi = generator_info(ix, b, _depth + 1)
            if bi is None:
                return None
            return GeneratorInfo(cls, None, None, "controlled", base=bi, base_cls=b, n_params=np_, node=None)
        return None
    stmts = _body(f)
    env = _locals(stmts)
    info = GeneratorInfo(cls, c, f, "other", n_params=np_, node=f.node)
    rets = _single_return(stmts)
    if len(rets) != 1 or rets[0].value is None:
        info.why = f"{len(rets)} return statements"
        return info
    v = _subst(rets[0].value, env)
    info.node = rets[0]
    if not isinstance(v, ast.Call):
        info.why = "the returned value is not a call"
        return info
    name, _r = _callee_name(ix, c.module, v.func)
    if name in ("Hamiltonian", "LinearCombination") and len(v.args) >= 2:
        cs, ws = _subst(v.args[0], env), _subst(v.args[1], env)
        if isinstance(cs, (ast.List, ast.Tuple)) and isinstance(ws, (ast.List, ast.Tuple)) and len(cs.elts) == len(ws.elts):
            terms = []
            for ce, we in zip(cs.elts, ws.elts):
                w = _pauli_word(ix, c.module, we, env)
                if w is None:
                    info.why = f"operator term not understood: {norm(we)[:60]}"
                    return info
                terms.append((_number(ce, env), w))
            info.form, info.terms = "pauli", terms
        return info
    if name == "s_prod" and len(v.args) == 2:
        w = _pauli_word(ix, c.module, v.args[1], env)
        if w is not None:
            info.form, info.terms = "pauli", [(_number(v.args[0], env), w)]
        return info
    if name in ("Projector", "BasisStateProjector") and v.args:
        a = _subst(v.args[0], env)
        if isinstance(a, ast.Call) and a.args:
            a = a.args[0]
        bits = None
        if isinstance(a, (ast.List, ast.Tuple)) and all(isinstance(x, ast.Constant) and x.value in (0, 1) for x in a.elts):
            bits = [int(x.value) for x in a.elts]
        info.form, info.bits = "projector", bits
        return info
    if name == "Hermitian" and v.args:
        a = _subst(v.args[0], env)
        nm, _ = _callee_name(ix, c.module, a.func) if isinstance(a, ast.Call) else (None, None)
        info.form = "hermitian-diag" if nm == "diag" else "hermitian"
        return info
    if name == "SparseHamiltonian":
        info.form = "sparse"
        return info
    info.why = f"generator form not understood: {norm(v)[:60]}"
    return info


# ---------------------------------------------------------------------------------------------
# attribute sets and operator names

ATTRIBUTES_MODULE = "pennylane/ops/qubit/attributes.py"


@dataclass
class AttrSet:
    name: str
    names: list  # the strings, in source order
    nodes: list  # the ast.Constant nodes, parallel to names
    node: ast.AST  # the Attribute([...]) call
    module: str = ATTRIBUTES_MODULE


def attribute_sets(ix):
    """{set name: AttrSet} for every module-level ``X = Attribute([... string literals ...])`` of
    ops/qubit/attributes.py (a display holding anything but string literals raises AnalysisError)."""
    from .core import AnalysisError

    m = ix.module(ATTRIBUTES_MODULE)
    acls = ix.cls(ATTRIBUTES_MODULE, "Attribute")
    out = {}
    for st in m.tree.body:
        if not (isinstance(st, ast.Assign) and len(st.targets) == 1 and isinstance(st.targets[0], ast.Name)):
            continue
        v = st.value
        if not (isinstance(v, ast.Call) and isinstance(v.func, (ast.Name, ast.Attribute)) and ix.resolve_expr(m, v.func) is acls):
            continue
        if len(v.args) != 1 or not isinstance(v.args[0], (ast.List, ast.Tuple, ast.Set)):
            raise AnalysisError(f"{ATTRIBUTES_MODULE}:{st.targets[0].id} is no longer a literal display")
        elts = v.args[0].elts
        if not all(isinstance(e, ast.Constant) and isinstance(e.value, str) for e in elts):
            raise AnalysisError(f"{ATTRIBUTES_MODULE}:{st.targets[0].id} holds something other than string literals")
        out[st.targets[0].id] = AttrSet(st.targets[0].id, [e.value for e in elts], list(elts), v)
    return out


def is_operator_class(cls: ClassInfo):
    return any(c.name in ("Operator", "Operator2") and c.module.name.startswith("pennylane.core.operator") for c in cls.mro())


def resolve_op_name(ix, name: str):
    """ClassInfo of the operator whose class ``__name__`` (what ``op.name`` reports) is ``name``, or of
    the operator class a module-level alias of that name denotes (``SQISW = SISWAP``); None when nothing
    (or nothing unique) matches.  The public exports win over same-named classes elsewhere (the
    ``estimator`` twins)."""
    if not isinstance(name, str) or not name.isidentifier():
        return None
    for prefix in ("pennylane.", "pennylane.ops.", "pennylane.templates."):
        r = ix.resolve_dotted(prefix + name)
        if isinstance(r, ClassInfo) and is_operator_class(r):
            return r
    cands = [c for c in ix.classes_named(name) if is_operator_class(c)]
    if len(cands) == 1:
        return cands[0]
    pref = [c for c in cands if c.module.relpath.startswith(("pennylane/ops/", "pennylane/templates/"))]
    if len(pref) == 1:
        return pref[0]
    return None


# ---------------------------------------------------------------------------------------------
# symbolic registrations (light: only the `add_decomps("Adjoint(N)" | "Pow(N)", ...)` string forms)

_GENERIC_RULE_MODULES = ("pennylane/decomposition/symbolic_decomposition.py", "pennylane/ops/op_math/adjoint2.py", "pennylane/ops/op_math/pow2.py")


def _generic_rule_kind(ix, module, e, depth=0):
    """-> (kind, period) with kind in self_adjoint / adjoint_rotation / pow_rotation / pow_period, or (None, None)"""
    if depth > 5:
        return None, None
    if isinstance(e, (ast.Name, ast.Attribute)):
        r = ix.resolve_expr(module, e)
        if isinstance(r, FuncInfo) and r.parent is None and r.cls is None and r.module.relpath in _GENERIC_RULE_MODULES:
            if r.name in ("decompose_to_base", "decompose_to_base_legacy"):
                return "self_adjoint", None
            if r.name in ("adjoint_rotation", "pow_rotation"):
                return r.name, None
            return None, None
        if isinstance(r, tuple) and r[0] == "value" and r[1].relpath in _GENERIC_RULE_MODULES:
            return _generic_rule_kind(ix, r[1], r[2], depth + 1)
        return None, None
    if isinstance(e, ast.Call) and isinstance(e.func, (ast.Name, ast.Attribute)):
        r = ix.resolve_expr(module, e.func)
        if isinstance(r, FuncInfo) and r.module.relpath in _GENERIC_RULE_MODULES and r.name == "make_pow_decomp_with_period":
            p = e.args[0] if e.args else None
            if isinstance(p, ast.Constant) and isinstance(p.value, int):
                return "pow_period", p.value
            return "pow_period", None
    return None, None


def symbolic_registrations(ix):
    """{("Adjoint" | "Pow", operator name): [(kind, period, call node, module relpath, rule text)]} for the generic
    rules attached by ``add_decomps("Adjoint(N)" | "Pow(N)", ...)``; non-generic rules are listed with kind None."""
    import re

    out = {}
    for m in ix.modules.values():
        if "add_decomps" not in m.source:
            continue
        for n in ast.walk(m.tree):
            if not (isinstance(n, ast.Call) and n.args and isinstance(n.args[0], ast.Constant) and isinstance(n.args[0].value, str)):
                continue
            if not isinstance(n.func, (ast.Name, ast.Attribute)) or norm(n.func).split(".")[-1] != "add_decomps":
                continue
            r = ix.resolve_expr(m, n.func)
            if not (isinstance(r, FuncInfo) and r.name == "add_decomps"):
                continue
            mm = re.fullmatch(r"(Adjoint|Pow)\((\w+)\)", n.args[0].value)
            if not mm:
                continue
            for a in n.args[1:]:
                k, p = _generic_rule_kind(ix, m, a)
                out.setdefault((mm.group(1), mm.group(2)), []).append((k, p, n, m.relpath, norm(a)[:60]))
    return out


# ---------------------------------------------------------------------------------------------
# exact constant matrices through E4 (values of compute_matrix, not only their support)


def matrix_returns(ix, cls: ClassInfo):
    """abstract values (trigdom ``Arr`` / ``Blob`` / ...) of every return path of the class's resolved
    ``compute_matrix`` with gate parameters as symbols, or None when E4 cannot run the body."""
    from . import trigdom as T

    _dc, fi = T.resolve_compute_matrix(cls)
    if fi is None:
        return None
    if not any(isinstance(d, ast.Name) and d.id == "staticmethod" for d in fi.node.decorator_list) or not T.plain_function(fi.node):
        return None
    params = T.matrix_params(cls, fi)
    nonscalar = T.nonscalar_params(cls, params)
    it = T.Interp2(ix)
    a = fi.node.args
    env = {}
    for x in a.posonlyargs + a.args + a.kwonlyargs:
        if x.arg in nonscalar:
            env[x.arg] = T.TopV("non-scalar parameter")
        elif x.arg in params:
            env[x.arg] = T.Sc([T.Lin({x.arg: T.ONE}, T.Cx(0))])
        else:
            ann = x.annotation
            env[x.arg] = T.Opaque(isinstance(ann, ast.Name) and ann.id == "int")
    if a.vararg:
        env[a.vararg.arg] = T.Opaque()
    if a.kwarg:
        env[a.kwarg.arg] = T.Opaque()
    try:
        rets = it.run_body(fi, env, T.Frame(fi.module, func=fi))
    except (T.Budget, RecursionError, T.GiveUp):
        return None
    out = []
    for r in rets:
        if r is T.PYNONE:
            continue
        try:
            if isinstance(r, (T.PyList, T.Opaque)):
                r = T.as_array(r)
        except T.GiveUp:
            return None
        out.append(r)
    return out or None


def exact_entries(ix, cls: ClassInfo):
    """square matrix of the class as nested lists of trigdom ``Poly`` with exactly known coefficients
    (every return path the same concrete array, every entry a single sure alternative whose coefficients
    are exact Gaussian rationals); None otherwise"""
    from . import trigdom as T

    rets = matrix_returns(ix, cls)
    if not rets:
        return None
    first = rets[0]
    if not isinstance(first, T.Arr) or first.rank != 2 or first.shape[0] != first.shape[1]:
        return None
    if any(r != first for r in rets[1:]):
        return None
    n = first.shape[0]
    rows = []
    for i in range(n):
        row = []
        for j in range(n):
            s = first.flat[i * n + j]
            if not isinstance(s, T.Sc) or not s.sure:
                return None
            p = s.single()
            if not isinstance(p, T.Poly) or any(not isinstance(c, T.Cx) for c in p.terms.values()):
                return None
            row.append(p)
        rows.append(row)
    return rows


def mat_mul(a, b):
    n = len(a)
    from . import trigdom as T

    out = []
    for i in range(n):
        row = []
        for j in range(n):
            acc = T.ZERO
            for k in range(n):
                acc = acc.add(a[i][k].mul(b[k][j]))
            row.append(acc)
        out.append(row)
    return out


def mat_power_is_identity(m, k):
    """exact: m**k == identity (True/False); m from ``exact_entries``"""
    from . import trigdom as T

    r = m
    for _ in range(k - 1):
        r = mat_mul(r, m)
    n = len(m)
    return all(r[i][j] == (T.P_ONE if i == j else T.ZERO) for i in range(n) for j in range(n))


def pauli_pattern(m):
    """letter of a 2x2 exact matrix that is provably ``a*I + b*P`` with b != 0 for exactly one Pauli P
    ("X": [[a,b],[b,a]], "Y": [[a,-ib],[ib,a]], "Z": diag(a+b, a-b)); "I" for a multiple of the identity;
    None for anything else"""
    if m is None or len(m) != 2:
        return None
    (a, b), (c, d) = m
    from . import trigdom as T

    minus = lambda p: p.scale(T.Cx(-1))  # noqa: E731
    if b.is_zero() and c.is_zero():
        return "I" if a == d else "Z"
    if a == d and b == c:
        return "X"
    if a == d and b == minus(c):
        return "Y"
    return None


def pauli_rep_letters(ix, cls: ClassInfo):
    """letters of the ``PauliWord({...: "X"})`` literals built by the class's own ``pauli_rep`` property:
    (set of non-identity letters, number of words) or None"""
    c, f = find_override(cls, "pauli_rep")
    if c is None or c == "generic":
        return None
    letters, words = set(), 0
    for n in ast.walk(f.node):
        if isinstance(n, ast.Call) and norm(n.func).split(".")[-1] == "PauliWord" and n.args and isinstance(n.args[0], ast.Dict):
            words += 1
            for v in n.args[0].values:
                if isinstance(v, ast.Constant) and isinstance(v.value, str):
                    letters.add(v.value)
                else:
                    return None
    if not words:
        return None
    return letters - {"I"}, words


# ---------------------------------------------------------------------------------------------
# invariance of a (symbolic) matrix under permutations of its qubits (R-C07-symm)


def square_arrays(ix, cls: ClassInfo):
    """-> (list of concrete square 2**n x 2**n trigdom ``Arr`` return values of compute_matrix, n, all_paths_concrete)
    or (None, None, False) when no return path is such an array"""
    from . import trigdom as T

    rets = matrix_returns(ix, cls)
    if not rets:
        return None, None, False
    arrs = [r for r in rets if isinstance(r, T.Arr) and r.rank == 2 and r.shape[0] == r.shape[1]]
    dims = {a.shape[0] for a in arrs}
    if len(dims) != 1:
        return None, None, False
    d = dims.pop()
    n = d.bit_length() - 1
    if d < 2 or (1 << n) != d:
        return None, None, False
    return arrs, n, len(arrs) == len(rets)


def _atom_relation(a, b):
    """two trigdom atoms (Poly) as functions of the gate parameters: 'equal' / 'differ' / 'unknown'.
    Exponentials with distinct frequency keys are linearly independent, so two polynomials whose
    coefficients are all exact are equal iff their term tables are equal; with opaque non-zero constants
    (``U``) only a difference of the key sets is conclusive; a possibly vanishing constant (``UZ``) decides nothing."""
    from . import trigdom as T

    if not isinstance(a, T.Poly) or not isinstance(b, T.Poly):
        return "unknown"
    ca, cb = list(a.terms.values()), list(b.terms.values())
    if all(isinstance(c, T.Cx) for c in ca + cb):
        return "equal" if a == b else "differ"
    if any(c == T.UZ for c in ca + cb):
        return "unknown"
    if set(a.terms) != set(b.terms):
        return "differ"
    for k, c in a.terms.items():  # same keys: an exact coefficient against a different exact one on some key
        d = b.terms[k]
        if isinstance(c, T.Cx) and isinstance(d, T.Cx) and c != d:
            return "differ"
    return "unknown"


def entry_relation(sa, sb):
    """two trigdom ``Sc`` entries: 'equal' only for single sure alternatives that are equal; 'differ' when
    every pair of alternatives provably differs"""
    from . import trigdom as T

    if not isinstance(sa, T.Sc) or not isinstance(sb, T.Sc) or not sa.alts or not sb.alts:
        return "unknown"
    rels = {_atom_relation(x, y) for x in sa.alts for y in sb.alts}
    if rels == {"differ"}:
        return "differ"
    if rels == {"equal"} and len(sa.alts) == 1 and len(sb.alts) == 1:
        return "equal"
    return "unknown"


def _swap_bits(i, a, b, n):
    """index with qubits a and b exchanged (qubit 0 = most significant bit of the basis index)"""
    pa, pb = n - 1 - a, n - 1 - b
    ba, bb = (i >> pa) & 1, (i >> pb) & 1
    if ba != bb:
        i ^= (1 << pa) | (1 << pb)
    return i


def qubit_symmetry(arr, n, pairs):
    """is the 2**n x 2**n array invariant under each transposition (a, b) of qubits in ``pairs``?
    -> ("invariant", None) | ("differs", (a, b, i, j, i', j', entry, permuted entry)) | ("unknown", (a, b, i, j))"""
    d = 1 << n
    unknown = None
    for a, b in pairs:
        for i in range(d):
            pi = _swap_bits(i, a, b, n)
            for j in range(d):
                pj = _swap_bits(j, a, b, n)
                if (pi, pj) <= (i, j):
                    continue
                x, y = arr.flat[i * d + j], arr.flat[pi * d + pj]
                if x is y or (x == y and len(getattr(x, "alts", ())) == 1 and entry_relation(x, y) == "equal"):
                    continue
                rel = entry_relation(x, y)
                if rel == "differ":
                    return "differs", (a, b, i, j, pi, pj, x, y)
                if rel == "unknown" and unknown is None:
                    unknown = (a, b, i, j)
    if unknown is not None:
        return "unknown", unknown
    return "invariant", None


def control_qubits(ix, cls: ClassInfo):
    """number of control qubits of a ``Controlled2`` subclass: literal ``num_wires`` of the class minus the literal
    ``num_wires`` of the operator handed to ``super().__init__`` (controls come first, the target(s) last); None when
    this cannot be read"""
    b = _ctrl_base_class(ix, cls)
    if b is None or not any(c.name in _CONTROLLED_GENERIC for c in cls.mro()):
        return None
    n, nb = _int_literal_attr(cls, "num_wires"), _int_literal_attr(b, "num_wires")
    if n is None or nb is None or nb < 1 or n <= nb:
        return None
    return n - nb
