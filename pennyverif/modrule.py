"""Shared scanner for angle reductions ``x % (k * pi)`` and the gate parameter the reduced value reaches.

``scan_modulo_sites(ix, modules_pred)`` finds every ``%`` whose right operand is a multiple of pi and
follows the reduced value — directly, through pass-through wrappers (``math.squeeze(x % m)``), through
ONE local name (``phi = self.phi % m`` ... ``RX(phi, ...)``) or through the tuple-unpacked generator form
(``p0, p1, p2 = (p % m for p in self.data)``) — into the angle argument of a constructor call that the
index resolves to a gate class.  ``judge(ix, site_sink)`` compares the modulus with the exact E4
(trigdom) period of that gate parameter.  Used by R-C03-mod (simplify & co. of operator classes) and
R-C10-mod (decomposition rules and their helpers).
"""

from __future__ import annotations

import ast
from dataclasses import dataclass, field
from fractions import Fraction

from . import trigdom as T
from .core import norm
from .index import ClassInfo, FuncInfo

PASS_THROUGH = {"squeeze", "real", "asarray", "cast_like", "convert_like", "unwrap", "float", "array", "round", "stop_gradient"}


def pi_multiple(node):
    """``k * np.pi`` / ``np.pi * k`` / ``np.pi`` / ``k * pi`` / ``k * np.pi / d`` -> Fraction k (None otherwise)."""

    def is_pi(n):
        return (isinstance(n, ast.Attribute) and n.attr == "pi") or (isinstance(n, ast.Name) and n.id in ("pi", "PI"))

    def num(n):
        if isinstance(n, ast.Constant) and isinstance(n.value, (int, float)) and not isinstance(n.value, bool):
            c = T.cx_of(n.value)
            return None if c is None else c.re
        if isinstance(n, ast.BinOp) and isinstance(n.op, (ast.Div, ast.Mult)):
            a, b = num(n.left), num(n.right)
            if a is None or b is None or (isinstance(n.op, ast.Div) and not b):
                return None
            return a / b if isinstance(n.op, ast.Div) else a * b
        return None

    if is_pi(node):
        return Fraction(1)
    if isinstance(node, ast.BinOp) and isinstance(node.op, ast.Mult):
        for a, b in ((node.left, node.right), (node.right, node.left)):
            k, v = pi_multiple(b), num(a)
            if k is not None and v is not None:
                return v * k
    if isinstance(node, ast.BinOp) and isinstance(node.op, ast.Div):
        k, v = pi_multiple(node.left), num(node.right)
        if k is not None and v:
            return k / v
    return None


@dataclass
class Sink:
    gate: ClassInfo
    param: str | None  # matrix parameter of the gate (None: position could not be mapped)
    call: ast.Call
    via: str  # "direct" | local name


@dataclass
class Site:
    module: str
    func: FuncInfo
    node: ast.BinOp
    k: Fraction | None  # modulus / pi  (None: not a multiple of pi)
    sinks: list = field(default_factory=list)
    returned: list = field(default_factory=list)
    status: str = "nosink"  # "sink" | "nosink" (compared / returned only) | "unknown" (reaches a gate through arithmetic ...)
    note: str = ""

    @property
    def qualname(self):
        return self.func.qualname

    @property
    def text(self):
        return norm(self.node)


def _parents(root):
    par = {}
    for p in ast.walk(root):
        for ch in ast.iter_child_nodes(p):
            par[ch] = p
    return par


def _enclosing_class(f: FuncInfo):
    while f is not None:
        if f.cls is not None:
            return f.cls
        f = f.parent
    return None


def resolve_gate(ix, f: FuncInfo, call: ast.Call):
    """the operator class a call constructs (``RX(..)``, ``qp.RX``, ``ops.RZ``, ``type(self)(..)``, ``cls(..)``)"""
    fn = call.func
    c = None
    if isinstance(fn, ast.Call) and norm(fn) in ("type(self)", "type(cls)"):
        c = _enclosing_class(f)
    elif norm(fn) in ("self.__class__", "cls"):
        c = _enclosing_class(f)
    elif isinstance(fn, (ast.Name, ast.Attribute)):
        r = ix.resolve_expr(f.module, fn)
        if isinstance(r, ClassInfo):
            c = r
    if c is not None and T.is_operator_class(c) and T.resolve_compute_matrix(c)[1] is not None:
        return c
    return None


def gate_param_of_arg(ix, gate: ClassInfo, call: ast.Call, arg):
    """which matrix parameter of ``gate`` the argument node ``arg`` of the constructor call binds to"""
    _, fi = T.resolve_compute_matrix(gate)
    mparams = T.matrix_params(gate, fi)
    name = None
    for kw in call.keywords:
        if kw.value is arg:
            name = kw.arg
    if name is None and arg in call.args:
        i = call.args.index(arg)
        if any(isinstance(a, ast.Starred) for a in call.args[: i + 1]):
            return None
        _, init = gate.lookup("__init__", stop_at=T.BASE_STOP)
        if isinstance(init, FuncInfo):
            a = init.node.args
            pos = [x.arg for x in a.posonlyargs + a.args][1:]
            if i < len(pos):
                name = pos[i]
            elif a.vararg is not None and i < len(mparams):
                return mparams[i]
        elif i < len(mparams):
            return mparams[i]
    return name if name in mparams else None


def _arg_slot(node, par):
    """climb from a value through pass-through wrappers / unary minus to the constructor-argument slot.
    -> (call, argnode, how) with how in {"arg", "arith"} or None"""
    cur, how = node, "arg"
    while cur in par:
        p = par[cur]
        if isinstance(p, ast.UnaryOp) and isinstance(p.op, (ast.USub, ast.UAdd)):
            cur = p
            continue
        if isinstance(p, ast.BinOp):
            if isinstance(p.op, ast.Mod) and p.left is cur:
                return None  # reduced again: the outer `%` is its own site
            how = "arith"
            cur = p
            continue
        if isinstance(p, ast.keyword):
            cur = p
            p = par.get(p)
            if isinstance(p, ast.Call):
                return p, cur.value, how
            return None
        if isinstance(p, ast.Call):
            last = p.func.attr if isinstance(p.func, ast.Attribute) else (p.func.id if isinstance(p.func, ast.Name) else None)
            if cur in p.args and last in PASS_THROUGH and (len(p.args) == 1 or p.args[0] is cur):
                cur = p
                continue
            if cur in p.args:
                return p, cur, how
            return None
        return None
    return None


def _assigned_names(node, par):
    """local names that receive the value of the ``%`` node (through wrappers): [(name, assign stmt)]"""
    cur = node
    while cur in par:
        p = par[cur]
        if isinstance(p, ast.Call):
            last = p.func.attr if isinstance(p.func, ast.Attribute) else (p.func.id if isinstance(p.func, ast.Name) else None)
            if cur in p.args and last in PASS_THROUGH and (len(p.args) == 1 or p.args[0] is cur):
                cur = p
                continue
            return []
        if isinstance(p, ast.Assign) and p.value is cur:
            return [(t.id, p) for t in p.targets if isinstance(t, ast.Name)]
        if isinstance(p, (ast.GeneratorExp, ast.ListComp)) and p.elt is cur:
            q = par.get(p)
            if isinstance(q, ast.Assign) and q.value is p and len(q.targets) == 1 and isinstance(q.targets[0], (ast.Tuple, ast.List)) \
                    and all(isinstance(e, ast.Name) for e in q.targets[0].elts):
                return [(e.id, q) for e in q.targets[0].elts]
            return []
        if isinstance(p, ast.Tuple) and isinstance(par.get(p), ast.Assign) and par[p].value is p:
            q = par[p]
            if len(q.targets) == 1 and isinstance(q.targets[0], ast.Tuple) and len(q.targets[0].elts) == len(p.elts):
                t = q.targets[0].elts[p.elts.index(cur)]
                return [(t.id, q)] if isinstance(t, ast.Name) else []
            return []
        return []
    return []


def _pos(n):
    return (getattr(n, "lineno", 0), getattr(n, "col_offset", 0))


def _follow_name(ix, f: FuncInfo, name, st, par, site, via):
    """sinks of the local ``name`` bound by statement ``st`` of ``f`` (until it is re-bound)"""
    redefs = sorted(_pos(x) for x in ast.walk(f.node) if isinstance(x, ast.Name) and x.id == name and isinstance(x.ctx, ast.Store)
                    and _pos(x) > (st.end_lineno, 10**6))
    end = redefs[0] if redefs else (10**9, 0)
    for u in ast.walk(f.node):
        if isinstance(u, ast.Name) and u.id == name and isinstance(u.ctx, ast.Load) and (st.end_lineno, 0) < _pos(u) < end:
            s = _arg_slot(u, par)
            if s is not None:
                _add_slot(ix, f, site, s + (via,))
            else:
                # returned as (part of) the function result?  remember the position for one level of callers
                p = par.get(u)
                if isinstance(p, ast.Return):
                    site.returned.append((f, None))
                elif isinstance(p, ast.Tuple) and isinstance(par.get(p), ast.Return):
                    site.returned.append((f, p.elts.index(u)))


def _add_slot(ix, f, site, slot):
    call, arg, how, via = slot
    g = resolve_gate(ix, f, call)
    if g is None:
        return
    if how == "arith":
        if site.status != "sink":
            site.status = "unknown"
            site.note = f"reaches {g.name}(...) through arithmetic ({norm(arg)[:50]}); effective modulus not derived"
        return
    p = gate_param_of_arg(ix, g, call, arg)
    if p is None:
        if site.status != "sink":
            site.status = "unknown"
            site.note = f"argument position of {g.name}(...) could not be mapped to a matrix parameter"
        return
    site.status = "sink"
    site.sinks.append(Sink(g, p, call, via))


def scan_function(ix, f: FuncInfo):
    from .cfg import walk_shallow

    sites = []
    mods = [n for n in walk_shallow(f.node) if isinstance(n, ast.BinOp) and isinstance(n.op, ast.Mod)
            and not (isinstance(n.left, ast.Constant) and isinstance(n.left.value, str))]
    if not mods:
        return sites
    par = _parents(f.node)
    for n in mods:
        k = pi_multiple(n.right)
        site = Site(f.module.relpath, f, n, k)
        site.returned = []
        sites.append(site)
        if k is None:
            site.note = "modulus is not a literal multiple of pi"
            continue
        s = _arg_slot(n, par)
        if s is not None:
            _add_slot(ix, f, site, s + ("direct",))
        for name, st in _assigned_names(n, par):
            _follow_name(ix, f, name, st, par, site, name)
    return sites


def scan_modulo_sites(ix, modules_pred):
    """every ``%`` site of the functions (methods, nested functions) of the selected modules; a reduced
    value that is returned (alone or at a tuple position) is followed into the callers — within the same
    selection of modules — that unpack the call result (one level)."""
    out = []
    mods = [m for m in ix.modules.values() if modules_pred(m)]
    for m in mods:
        if "%" not in m.source:
            continue
        for f in ix.funcs_in(m):
            out.extend(scan_function(ix, f))
    exported = {}
    for s in out:
        for fn, idx in getattr(s, "returned", []):
            if fn.parent is None and fn.cls is None:
                exported.setdefault(fn.name, []).append((fn, idx, s))
    if exported:
        for m in mods:
            if not any(nm in m.source for nm in exported):
                continue
            for f in ix.funcs_in(m):
                par = None
                for st in ast.walk(f.node):
                    if not (isinstance(st, ast.Assign) and isinstance(st.value, ast.Call) and len(st.targets) == 1):
                        continue
                    fn = st.value.func
                    last = fn.attr if isinstance(fn, ast.Attribute) else (fn.id if isinstance(fn, ast.Name) else None)
                    if last not in exported:
                        continue
                    r = ix.resolve_expr(f.module, fn)
                    for callee, idx, site in exported[last]:
                        if r is not callee:
                            continue
                        t = st.targets[0]
                        if idx is None and isinstance(t, ast.Name):
                            name = t.id
                        elif idx is not None and isinstance(t, (ast.Tuple, ast.List)) and idx < len(t.elts) and isinstance(t.elts[idx], ast.Name) \
                                and not any(isinstance(e, ast.Starred) for e in t.elts):
                            name = t.elts[idx].id
                        else:
                            continue
                        par = par or _parents(f.node)
                        # only in the function that owns the statement (nested functions are visited through it)
                        if any(st in ast.walk(sub) for sub in ast.walk(f.node) if isinstance(sub, (ast.FunctionDef, ast.AsyncFunctionDef)) and sub is not f.node):
                            continue
                        _follow_name(ix, f, name, st, par, site, f"{callee.name}() -> {name} in {f.qualname}")
    return out


def judge(ix, site: Site, sink: Sink):
    """-> (verdict, detail) with verdict in {'proved', 'refuted', 'unknown'}"""
    info = T.analyse_matrix(ix, sink.gate)
    sup = info.support.get(sink.param)
    if sup is None or sup.freqs is None:
        return "unknown", f"support of {sink.gate.name}.compute_matrix in {sink.param} is Top ({info.why})"
    per = T.period(sup)
    if per is None or (site.k / per).denominator == 1:
        return "proved", f"{site.k}*pi is a multiple of the matrix period {'(constant)' if per is None else str(per) + '*pi'} of {sink.gate.name}.{sink.param} (F={sup!r})"
    if sup.exact:
        return "refuted", (f"the value reduced by `{site.text}` reaches {sink.gate.name}({sink.param}=...) "
                           f"({'directly' if sink.via == 'direct' else 'through `' + sink.via + '`'}), but {sink.gate.name}.compute_matrix has the exact "
                           f"Fourier support {sup!r} in `{sink.param}`: its matrix has period {per}*pi, so reducing modulo {site.k}*pi merges angles "
                           f"whose matrices differ (by the sign -1): the operator built here is not the one the angle described")
    return "unknown", f"F={sup!r} is an over-approximation: period {per}*pi vs modulus {site.k}*pi cannot be decided"


def report_sites(ix, rep, rule, sites):
    """shared reporting: one obligation per (site, sink); returns counters"""
    n_sites = n_sinks = n_proved = 0
    for s in sites:
        if s.k is None:
            continue
        n_sites += 1
        where0 = f"{s.module}:{s.qualname} `{s.text}`"
        rep.analysed(s.module, s.qualname)
        if s.status == "nosink":
            rep.exempt(rule, where0, "reduced value is only compared / returned here (no gate constructor in this function)")
            continue
        if s.status == "unknown" and not s.sinks:
            rep.unknown(rule, where0, s.note)
            continue
        seen = set()
        for k in s.sinks:
            key = (k.gate.fq, k.param)
            if key in seen:
                continue
            seen.add(key)
            n_sinks += 1
            verdict, detail = judge(ix, s, k)
            where = f"{where0} -> {k.gate.name}.{k.param}"
            if verdict == "proved":
                n_proved += 1
                rep.proved(rule, where, detail)
            elif verdict == "unknown":
                rep.unknown(rule, where, detail)
            else:
                rep.refuted(rule, s.module, s.qualname, f"{k.gate.name}.{k.param} <- {s.text}", detail, line=s.node.lineno,
                            gate=k.gate.name, param=k.param, modulus=str(s.k))
    return n_sites, n_sinks, n_proved
