#!/usr/bin/env python3
"""Print the markdown table of seeded changes (seeded/*/meta.json) for DESIGN.md §13."""
import json, re
from pathlib import Path
V = Path(__file__).resolve().parent.parent
rows = []
for d in sorted((V / "seeded").iterdir()):
    m = json.loads((d / "meta.json").read_text())
    patch = (d / "patch.diff").read_text()
    files = sorted(set(re.findall(r"^\+\+\+ b/(\S+)", patch, re.M)))
    out = m.get("check_output", "")
    rules = sorted(set(re.findall(r"^\s+(R-C\d+-[\w-]+) ", out, re.M)))
    code = m.get("check_exit_on_patched_tree")
    verdict = {0: "missed", 1: "caught", 2: "analysis-error"}.get(code, str(code))
    note = m.get("note", "")
    if m.get("patch_applies") is False:
        verdict = "stale"
        note = (note + "; " if note else "") + "the patch no longer applies: a later fix: commit rewrote the lines it edits (it was caught on the tree it was made for)"
    rows.append((d.name, ", ".join(f.replace("pennylane/", "") for f in files), verdict, ", ".join(rules), note))
print("| seed | files touched | verdict | rule(s) that fire | note |\n|---|---|---|---|---|")
for r in rows:
    print("| " + " | ".join(r) + " |")
c = sum(1 for r in rows if r[2] == "caught")
st = sum(1 for r in rows if r[2] == "stale")
print(f"\n{c} of {len(rows) - st} applicable seeds caught ({st} stale).")
