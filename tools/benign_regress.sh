#!/bin/bash
# benign_regress.sh — re-run ALL claimed checks on every kept behaviour-preserving refactoring (/verif/benign/<P>-<i>/patch.diff):
# one scratch worktree of /repo HEAD, patches applied and reverted one after the other.  Prints one line per patch; exit 1 if any
# check exits non-zero on any of them.  The worktree is removed at the end.
set -u
WT=/tmp/confirm/benign_regress
mkdir -p /tmp/confirm
git -C /repo worktree remove --force "$WT" 2>/dev/null
git -C /repo worktree add --detach "$WT" HEAD -q || exit 3
BAD=0
cd /verif
for d in benign/*/; do
  id=$(basename "$d")
  if ! git -C "$WT" apply --check "/verif/$d/patch.diff" 2>/dev/null; then echo "$id does-not-apply"; continue; fi
  git -C "$WT" apply "/verif/$d/patch.diff"
  NZ=$(/venv/bin/python -m pennyverif check all --root "$WT" --no-evidence 2>&1 | grep -E "exit [12]$" | sed -E 's/:.*-> / /' | tr '\n' ';')
  git -C "$WT" checkout -q -- . ; git -C "$WT" clean -fdq
  echo "$id nonzero=[$NZ]"
  [ -n "$NZ" ] && BAD=1
done
git -C /repo worktree remove --force "$WT"
exit $BAD
