#!/venv/bin/python
"""tools/benign_stress.py [mode] [PROPERTY...] — run the claimed checks on a behaviour-preserving rewrite of the WHOLE package held
in memory (see pennyverif/benign.py) and report any refutation that is not a known finding / analysis error."""
import importlib
import json
import sys
from pathlib import Path

sys.path.insert(0, "/verif")
from pennyverif import benign, core  # noqa: E402

ROOT = Path("/repo")
mode = sys.argv[1] if len(sys.argv) > 1 else "unparse"
overlay, skipped = benign.build_overlay(ROOT, mode)
print(f"{mode}: {len(overlay)} modules rewritten in memory, {len(skipped)} left as they are")
claims = [c["property_id"] for c in json.load(open("/verif/MANIFEST.json"))["checks"]]
bad = 0
for pid in sys.argv[2:] or claims:
    mod = importlib.import_module(f"pennyverif.props.{pid.lower()}")
    rep, err = core.analyse(mod.check, ROOT, "quick", overlay=overlay)
    if rep is None:
        print(f"{pid}: ANALYSIS-ERROR {err[:300]}")
        bad += 1
        continue
    unlisted, listed = core.split_known(rep)
    print(f"{pid}: {len(unlisted)} unlisted refutation(s), {len(listed)} known")
    for f, _k in unlisted:
        bad += 1
        print("   ", f.rule, f.module, f.construct, "::", str(f.statement)[:160], "::", f.message[:300])
sys.exit(1 if bad else 0)
