#!/venv/bin/python
"""tools/benign_stress.py [mode] — run every claimed check on a behaviour-preserving rewrite of the WHOLE package held
in memory (overlay; /repo is not touched) and report any new refutation / analysis error: a false alarm in waiting.
modes:  unparse   every module re-emitted by ast.unparse (drops comments, changes quoting, parentheses, line numbers)
        shift     a comment + blank lines inserted at the top of every module and before every top-level def/class
        rename    every function-local variable that is only ever bound by plain assignment is renamed (x -> x_v)"""
import ast
import importlib
import json
import sys
from pathlib import Path

sys.path.insert(0, "/verif")
from pennyverif import core  # noqa: E402

ROOT = Path("/repo")
mode = sys.argv[1] if len(sys.argv) > 1 else "unparse"


def shift(src):
    out = ["# benign shift", "", ""]
    for line in src.splitlines():
        if line.startswith(("def ", "class ", "@")) :
            out += ["", "# moved", ""] if not (out and out[-1].startswith("@")) else []
        out.append(line)
    return "\n".join(out) + "\n"


class Renamer(ast.NodeTransformer):
    """rename locals of each function that are bound only by simple assignment / for targets and never appear in
    nested scopes, global/nonlocal statements or as keyword names"""

    def visit_FunctionDef(self, node):
        self.generic_visit(node)
        params = {a.arg for a in node.args.posonlyargs + node.args.args + node.args.kwonlyargs}
        if node.args.vararg:
            params.add(node.args.vararg.arg)
        if node.args.kwarg:
            params.add(node.args.kwarg.arg)
        nested_names = set()
        blocked = set()
        for n in ast.walk(node):
            if n is not node and isinstance(n, (ast.FunctionDef, ast.AsyncFunctionDef, ast.Lambda, ast.ClassDef, ast.ListComp, ast.SetComp, ast.DictComp, ast.GeneratorExp)):
                for x in ast.walk(n):
                    if isinstance(x, ast.Name):
                        nested_names.add(x.id)
            if isinstance(n, (ast.Global, ast.Nonlocal)):
                blocked |= set(n.names)
            if isinstance(n, (ast.Import, ast.ImportFrom)):
                blocked |= {(a.asname or a.name).split(".")[0] for a in n.names}
            if isinstance(n, ast.ExceptHandler) and n.name:
                blocked.add(n.name)
            if isinstance(n, (ast.With, ast.AsyncWith)):
                for it in n.items:
                    if it.optional_vars is not None:
                        blocked |= {x.id for x in ast.walk(it.optional_vars) if isinstance(x, ast.Name)}
            if isinstance(n, ast.NamedExpr):
                blocked.add(n.target.id)
            if isinstance(n, ast.MatchAs) and n.name:
                blocked.add(n.name)
            if isinstance(n, (ast.MatchStar,)) and n.name:
                blocked.add(n.name)
        stores = {x.id for x in ast.walk(node) if isinstance(x, ast.Name) and isinstance(x.ctx, ast.Store)}
        cand = {s for s in stores if s not in params and s not in nested_names and s not in blocked and not s.startswith("__") and s != "_"}
        if "locals" in {x.id for x in ast.walk(node) if isinstance(x, ast.Name)} or "vars" in {x.id for x in ast.walk(node) if isinstance(x, ast.Name)}:
            return node
        m = {c: c + "_v" for c in cand}

        class R(ast.NodeTransformer):
            def visit_Name(self, n):
                if n.id in m:
                    return ast.copy_location(ast.Name(id=m[n.id], ctx=n.ctx), n)
                return n

            def visit_FunctionDef(self, n):
                return n if n is not node else self.generic_visit(n)

            visit_AsyncFunctionDef = visit_FunctionDef

            def visit_Lambda(self, n):
                return n

            def visit_ClassDef(self, n):
                return n
        return R().visit(node)

    visit_AsyncFunctionDef = visit_FunctionDef


overlay = {}
n = 0
for p in sorted((ROOT / "pennylane").rglob("*.py")):
    rel = str(p.relative_to(ROOT))
    src = p.read_text()
    try:
        tree = ast.parse(src)
    except SyntaxError:
        continue
    if mode == "unparse":
        new = ast.unparse(tree) + "\n"
    elif mode == "shift":
        new = shift(src)
    elif mode == "rename":
        new = ast.unparse(ast.fix_missing_locations(Renamer().visit(tree))) + "\n"
    else:
        sys.exit("unknown mode")
    try:
        compile(new, rel, "exec")
    except SyntaxError as e:
        print("skip (rewrite does not compile)", rel, e)
        continue
    overlay[rel] = new
    n += 1
print(f"{mode}: {n} modules rewritten in memory")
claims = [c["property_id"] for c in json.load(open("/verif/MANIFEST.json"))["checks"]]
only = sys.argv[2:] or claims
bad = 0
for pid in only:
    mod = importlib.import_module(f"pennyverif.props.{pid.lower()}")
    rep, err = core.analyse(mod.check, ROOT, "quick", overlay=overlay)
    if rep is None:
        print(f"{pid}: ANALYSIS-ERROR {err[:300]}")
        bad += 1
        continue
    unlisted, listed = core.split_known(rep)
    print(f"{pid}: {len(unlisted)} unlisted refutation(s), {len(listed)} known")
    for f in unlisted:
        bad += 1
        print("   ", f.rule, f.module, f.construct, "::", str(f.statement)[:120])
sys.exit(1 if bad else 0)
