#!/bin/bash
# check_benign.sh <PROPERTY> [TAG]   — behaviour-preserving refactorings produced by an independent sub-agent
# (/tmp/wt-out/<P>b/patch<i>.diff, tools/benign_prompt.py): apply each to a scratch worktree of /repo HEAD and run ALL
# claimed checks against it.  Any exit code other than 0 is a false alarm (or an analysis error) of the machinery.
# Keeps the patches as /verif/benign/<P>-<i>/{patch.diff,notes.md,result.json}; the scratch worktree is removed.
set -u
P=$1
TAG=${2:-b}   # b = first set, c = second set (kept as <P>-c<i>)
SRC=/tmp/wt-out/${P}${TAG}
mkdir -p /tmp/confirm
for f in "$SRC"/patch*.diff; do
  [ -f "$f" ] || continue
  i=$(basename "$f" .diff | sed 's/patch//')
  if [ "$TAG" = "b" ]; then ID=$P-$i; else ID=$P-$TAG$i; fi
  WT=/tmp/confirm/b$ID
  OUT=/verif/benign/$ID
  mkdir -p "$OUT"
  git -C /repo worktree remove --force "$WT" 2>/dev/null
  git -C /repo worktree add --detach "$WT" HEAD -q || exit 3
  if ! git -C "$WT" apply --check "$f" 2>/dev/null; then echo "$ID patch does not apply"; git -C /repo worktree remove --force "$WT"; continue; fi
  git -C "$WT" apply "$f"
  (cd "$WT" && /venv/bin/python -c "import sys,os; sys.path.insert(0, os.getcwd()); import pennylane" >/dev/null 2>&1); IMP=$?
  cd /verif
  RES=$(/venv/bin/python -m pennyverif check all --root "$WT" --no-evidence 2>&1 | grep -v "^KNOWN-FINDING")
  BAD=$(echo "$RES" | grep -E "^VIOLATION|^ANALYSIS-ERROR|^  R-" | head -20)
  NZ=$(echo "$RES" | grep -E "exit [12]$" | sed -E 's/:.*-> / /' | tr '\n' ';')
  cp "$f" "$OUT/patch.diff"; cp "$SRC/notes$i.md" "$OUT/notes.md" 2>/dev/null
  python3 - <<PY
import json
json.dump({"source":"independent sub-agent asked for behaviour-preserving refactorings (tools/benign_prompt.py)","property_context":"$P",
 "imports_with_patch": $IMP==0, "checks_with_nonzero_exit": """$NZ""", "findings": """$BAD"""[:3000]}, open("$OUT/result.json","w"), indent=1)
PY
  echo "$ID import=$IMP nonzero=[$NZ]"
  [ -n "$BAD" ] && echo "$BAD" | cut -c1-260
  git -C /repo worktree remove --force "$WT"
done
