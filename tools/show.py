#!/venv/bin/python
"""tools/show.py <PROPERTY> <substring> — list the obligations (verdict, rule, where, why) whose text contains the substring."""
import importlib
import sys
from pathlib import Path

sys.path.insert(0, "/verif")
from pennyverif import core  # noqa: E402

pid, sub = sys.argv[1], (sys.argv[2] if len(sys.argv) > 2 else "")
mod = importlib.import_module(f"pennyverif.props.{pid.lower()}")
rep, err = core.analyse(mod.check, Path(sys.argv[3] if len(sys.argv) > 3 else "/repo"))
if rep is None:
    sys.exit(err)
for i in rep.instances:
    line = f"{i.verdict:8} {i.rule:16} {i.where} :: {i.detail}"
    if sub.lower() in line.lower():
        print(line[:400])
