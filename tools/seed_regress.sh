#!/bin/bash
# seed_regress.sh [P ...] — re-run the check of each kept property-breaking change (/verif/seeded/<id>/patch.diff) against a scratch
# worktree of /repo HEAD with the patch applied, and compare the exit code with the one recorded in meta.json.
# Prints "<id> recorded=<r> now=<n>" and flags LOST (was caught, now silent) / GAINED / ERROR (exit 2).  The worktree is removed.
set -u
WT=/tmp/confirm/seed_regress$$
mkdir -p /tmp/confirm
git -C /repo worktree add --detach "$WT" HEAD -q || exit 3
BAD=0
cd /verif
for d in seeded/*/; do
  id=$(basename "$d"); P=${id%%-*}
  if [ $# -gt 0 ] && ! [[ " $* " == *" $P "* ]]; then continue; fi
  if ! git -C "$WT" apply --check "/verif/$d/patch.diff" 2>/dev/null; then echo "$id does-not-apply"; continue; fi
  git -C "$WT" apply "/verif/$d/patch.diff"
  /venv/bin/python -m pennyverif check $P --root "$WT" --no-evidence > /dev/null 2>&1; NOW=$?
  git -C "$WT" checkout -q -- . ; git -C "$WT" clean -fdq
  REC=$(python3 -c "import json;print(json.load(open('$d/meta.json')).get('check_exit_on_patched_tree'))")
  FLAG=""
  [ "$REC" = "1" ] && [ "$NOW" != "1" ] && { FLAG="LOST"; BAD=1; }
  [ "$REC" = "0" ] && [ "$NOW" = "1" ] && FLAG="GAINED"
  [ "$NOW" = "2" ] && { FLAG="ERROR"; BAD=1; }
  echo "$id recorded=$REC now=$NOW $FLAG"
done
git -C /repo worktree remove --force "$WT"
exit $BAD
