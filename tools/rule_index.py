#!/venv/bin/python
"""Print the markdown table 'property -> rules implemented, obligations per verdict' from the evidence files (DESIGN.md §11)."""
import json
from pathlib import Path

V = Path(__file__).resolve().parent.parent
print("| property | rule | proved | unknown | exempt | refuted (known findings) |\n|---|---|---|---|---|---|")
for f in sorted((V / "evidence").glob("C*.json")):
    d = json.loads(f.read_text())
    vb = d["coverage"].get("verdicts_by_rule", {})
    for rule, v in sorted(vb.items()):
        print(f"| {d['property_id']} | {rule} | {v.get('proved', 0)} | {v.get('unknown', 0)} | {v.get('exempt', 0)} | {v.get('refuted', 0)} |")
