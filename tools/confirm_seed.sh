#!/bin/bash
# confirm_seed.sh <PROPERTY> <N> [--suite|-] [TAG]   (TAG e.g. r2: second round, source /tmp/wt-out/<P>r2, stored as seeded/<P>-r2-<N>)
# Confirms an independently produced breaking change (/tmp/wt-out/<P>/patch<N>.diff + demo<N>.py):
#   demo passes on a clean scratch worktree of /repo HEAD, fails with the patch applied,
#   (with --suite) the pinned doctest suite keeps every baseline pass,
#   then runs this framework's checks for <P> against the patched scratch tree (never /repo).
# Writes /verif/seeded/<P>-<N>/{patch.diff,demo.py,meta.json}. The scratch worktree is removed.
set -u
P=$1; N=$2; SUITE=${3:-}; TAG=${4:-}
SRC=/tmp/wt-out/$P$TAG
if [ -n "$TAG" ]; then ID=$P-$TAG-$N; else ID=$P-$N; fi
WT=/tmp/confirm/$ID
OUT=/verif/seeded/$ID
mkdir -p /tmp/confirm "$OUT"
git -C /repo worktree remove --force "$WT" 2>/dev/null
git -C /repo worktree add --detach "$WT" HEAD -q || exit 3
cp "$SRC/demo$N.py" "$WT/_demo.py"
cd "$WT"
timeout 900 /venv/bin/python _demo.py > "$OUT/demo_clean.log" 2>&1; CLEAN=$?
if ! git apply --check "$SRC/patch$N.diff" 2>/dev/null; then echo "patch does not apply to HEAD"; APPLY=1; else git apply "$SRC/patch$N.diff"; APPLY=0; fi
timeout 900 /venv/bin/python _demo.py > "$OUT/demo_patched.log" 2>&1; PATCHED=$?
/venv/bin/python -c "import pennylane" > /dev/null 2>&1; IMPORT=$?
SUITE_OK=null; LOST="[]"
if [ "$SUITE" = "--suite" ] && [ $APPLY = 0 ]; then
  rm -f _demo.py
  timeout 3000 /venv/bin/python -m pytest -ra -q -p no:cacheprovider --timeout=900 --continue-on-collection-errors --junitxml=/tmp/confirm/$ID.xml > /tmp/confirm/$ID.log 2>&1
  LOST=$(python3 - <<PY
import json,subprocess
base=set(json.load(open('/verif/tools/baseline_pass.json')))
now=set(json.loads(subprocess.check_output(['python3','/verif/tools/junit_pass.py','/tmp/confirm/$ID.xml'])))
print(json.dumps(sorted(base-now)))
PY
)
  if [ "$LOST" = "[]" ]; then SUITE_OK=true; else SUITE_OK=false; fi
fi
cd /verif
CHK=$(/venv/bin/python -m pennyverif check $P --root "$WT" --no-evidence 2>&1 | grep -v "^KNOWN-FINDING" | head -30)
CODE=$(/venv/bin/python -m pennyverif check $P --root "$WT" --no-evidence > /dev/null 2>&1; echo $?)
cp "$SRC/patch$N.diff" "$OUT/patch.diff"; cp "$SRC/demo$N.py" "$OUT/demo.py"; cp "$SRC/notes$N.md" "$OUT/notes.md" 2>/dev/null
python3 - <<PY
import json
meta={"property":"$P","source":"independent sub-agent given only the property record and a scratch worktree",
 "demo_exit_clean":$CLEAN,"demo_exit_patched":$PATCHED,"patch_applies":$APPLY==0,"imports_with_patch":$IMPORT==0,
 "pinned_suite_keeps_baseline_passes":{"null":None,"true":True,"false":False}["$SUITE_OK"],"lost_passes":$LOST,
 "check_exit_on_patched_tree":$CODE,"check_output":"""$CHK"""[:3000],
 "ran":["demo on clean scratch worktree of /repo HEAD","demo with patch applied","pinned doctest suite with patch (when --suite)","python -m pennyverif check $P --root <patched scratch worktree>"]}
try:
    n=json.load(open("/verif/tools/seed_notes.json")).get("$ID")
    if n: meta["needs_to_manifest"]=n["needs"]; meta["note"]=n["history"]
except Exception: pass
meta["breaks_property"]="$P"
json.dump(meta,open("$OUT/meta.json","w"),indent=1)
print(json.dumps({k:meta[k] for k in ("demo_exit_clean","demo_exit_patched","patch_applies","pinned_suite_keeps_baseline_passes","check_exit_on_patched_tree")}))
PY
git -C /repo worktree remove --force "$WT"
