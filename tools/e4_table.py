#!/venv/bin/python
"""Print the E4 (trigdom) result for every operator class whose resolved ``compute_matrix`` takes at
least one gate parameter: per-parameter Fourier support, exactness, period, closure, shape.

    cd /verif && /venv/bin/python tools/e4_table.py [--root /repo] [--why] [ClassName ...]

``~`` after a support = not exact (over-approximation; may prove, may not refute).  Static
analysis only: pennylane is never imported.
"""

from __future__ import annotations

import argparse
import sys
import time
from pathlib import Path

sys.path.insert(0, str(Path(__file__).resolve().parent.parent))

from pennyverif import trigdom as T  # noqa: E402
from pennyverif.index import get_index  # noqa: E402


def fmt_set(fs):
    if fs is None:
        return "Top"
    return "{" + ",".join(str(f) for f in sorted(fs)) + "}"


def main():
    ap = argparse.ArgumentParser()
    ap.add_argument("--root", default="/repo")
    ap.add_argument("--why", action="store_true", help="print the resolution note for every class")
    ap.add_argument("names", nargs="*")
    args = ap.parse_args()
    t0 = time.time()
    ix = get_index(args.root)
    t1 = time.time()
    classes = T.operator_classes_with_matrix(ix)
    if args.names:
        classes = [c for c in classes if c.name in args.names]
    rows, tops = [], []
    for c in sorted(classes, key=lambda c: (c.module.relpath, c.node.lineno)):
        info = T.analyse_matrix(ix, c)
        resolved = any(s.freqs is not None for s in info.support.values())
        if not resolved:
            tops.append((c, info))
            continue
        for p in info.params:
            s = info.support[p]
            per = T.period(s)
            rows.append((
                c.name, p, fmt_set(s.freqs), "exact" if s.exact else ("-" if s.freqs is None else "approx"),
                "-" if per is None else f"{per}*pi", fmt_set(T.closure(s)), info.shape,
                c.module.relpath.replace("pennylane/", "") + ("" if info.node.cls is c else f" (via {info.node.cls.name})"),
                info.why,
            ))
    hdr = ("class", "param", "support", "exactness", "period", "closure", "shape", "module")
    w = [max(len(str(r[i])) for r in rows + [hdr]) for i in range(len(hdr))]
    print("  ".join(h.ljust(w[i]) for i, h in enumerate(hdr)))
    print("  ".join("-" * w[i] for i in range(len(hdr))))
    for r in rows:
        print("  ".join(str(r[i]).ljust(w[i]) for i in range(len(hdr))))
        if args.why:
            print("      " + r[8])
    print(f"\n{len({r[0] for r in rows})} classes resolved ({sum(1 for r in rows if r[3] == 'exact')} exact / "
          f"{sum(1 for r in rows if r[3] == 'approx')} approximate parameter supports); {len(tops)} classes stay at Top:")
    for c, info in tops:
        print(f"  {c.name:26} {c.module.relpath.replace('pennylane/', ''):44} params={info.params}  {info.why}")
    print(f"\nindex {t1 - t0:.2f}s, E4 {time.time() - t1:.2f}s")


if __name__ == "__main__":
    main()
