#!/usr/bin/env python3
"""Print the prompt given to an independent sub-agent that produces behaviour-PRESERVING refactorings at the code sites of a
property (to find false alarms of the checks: a check must stay silent on them).  The agent sees only the property record
and its own scratch worktree (nothing from /verif)."""
import json, sys
pid = sys.argv[1]
rec = None
for l in open('/verif/properties.jsonl'):
    p = json.loads(l)
    if p['id'] == pid:
        rec = p
wid = pid + "b"
print(f"""You are helping to test a static-analysis tool for false alarms. Your job is to produce realistic, behaviour-PRESERVING refactorings of a Python library.

Repository: a git worktree of PennyLane (quantum programming framework) at /tmp/wt/{wid} . Work ONLY inside that directory and /tmp/wt-out/{wid}/ . Never touch /repo or /verif, never run git commit, never create other worktrees, NEVER use `git stash`. Use /venv/bin/python (Python 3.12, all dependencies installed). To make sure you import the worktree's package, run things with the worktree as current directory and check `cd /tmp/wt/{wid} && /venv/bin/python -c "import sys, os; sys.path.insert(0, os.getcwd()); import pennylane; print(pennylane.__file__)"`. There is no network.

Here is one semantic property that the library satisfies (JSON record); its "anchors" name the files and mechanisms that implement it:

{json.dumps(rec, indent=1)}

Task: produce FIVE independent refactorings (patch1..patch5), each a self-contained change of the kind a maintainer makes during ordinary clean-up work, located in the functions/classes that implement the mechanisms named in the anchors (read them first), such that the observable behaviour of the library is EXACTLY unchanged and the property above still holds. Vary the kind of change across the five patches; use kinds like:
  - rename local variables / private helper functions / private module-level names (update all uses),
  - extract a block into a new private helper function or method, or inline a small helper,
  - turn a loop into a comprehension or a comprehension into a loop; `list(x)` <-> `x.copy()` <-> `x[:]` <-> `[*x]`; `dict(d)` <-> `d.copy()`,
  - restructure control flow without changing it: `if/else` <-> early return, `elif` chains <-> separate ifs with returns, merge or split conditions, invert a condition and swap the branches, introduce a local for a repeated sub-expression,
  - re-order statements that are independent of each other; move a computation closer to its use,
  - replace a ternary by an if statement, a lambda by a def, positional by keyword arguments (or vice versa) in internal calls,
  - reformat (line breaks, parentheses, quotes), add or rewrite comments and docstrings, add type annotations.
Each patch should touch 5-40 lines and at least three of the five should restructure code (not just rename/reformat). Do NOT change public APIs, do not fix bugs you notice, do not change error messages.

For each patch i write into /tmp/wt-out/{wid}/ :
  - patch<i>.diff : output of `git -C /tmp/wt/{wid} diff` for that change alone (apply-able with `git apply` on a clean tree; clean the tree with `git checkout -- .` between patches),
  - notes<i>.md : 3-6 lines: which function(s) it touches, what kind of refactoring it is, and how you verified that behaviour is unchanged.
Verify each patch: the package still imports, and the upstream unit tests of the touched area still pass exactly as on the clean tree (the repository contains its test-suite under tests/; pick the relevant test files, e.g. `/venv/bin/python -m pytest tests/<area>/test_<x>.py -q -p no:cacheprovider -x -p no:xdist` (do NOT use -n: the machine is shared); tests needing missing optional packages such as catalyst/jax fail on the clean tree too - compare against the clean tree). Also write a tiny script or one-liner exercising the touched function and compare its output before/after.
Leave the worktree CLEAN (git checkout -- .) when you finish and kill any helper processes you started.

Keep your final answer short: one line per patch (file/function, kind of refactoring, verified yes/no).""")
