#!/usr/bin/env python3
"""junit_pass.py <junit.xml> -> prints JSON list of passing test ids (classname::name)."""
import json, sys, xml.etree.ElementTree as ET
passed, failed = set(), set()
for tc in ET.parse(sys.argv[1]).getroot().iter("testcase"):
    tid = (tc.get("classname") or "") + "::" + (tc.get("name") or "")
    if tc.find("failure") is not None or tc.find("error") is not None:
        failed.add(tid)
    elif tc.find("skipped") is None:
        passed.add(tid)
print(json.dumps(sorted(passed - failed)))
