#!/usr/bin/env python3
"""Regenerate MANIFEST.json from tools/claims.json (claimed properties that have a checker
module) and the not-applicable table of DESIGN.md section 8."""
import json
import re
from pathlib import Path

V = Path(__file__).resolve().parent.parent
claims = json.loads((V / "tools" / "claims.json").read_text())
design = (V / "DESIGN.md").read_text()
na = {}
for m in re.finditer(r"^\| (C\d\d) \| (.+?) \|$", design, re.M):
    na[m.group(1)] = m.group(2)
all_ids = [json.loads(l)["id"] for l in (V / "properties.jsonl").read_text().splitlines() if l.strip()]
PY = "/venv/bin/python -m pennyverif"
checks, not_app = [], []
for pid in all_ids:
    c = claims.get(pid)
    has_mod = (V / "pennyverif" / "props" / f"{pid.lower()}.py").exists()
    if c and has_mod:
        checks.append({
            "property_id": pid,
            "quick_cmd": f"{PY} check {pid} --tier quick",
            "thorough_cmd": f"{PY} check {pid} --tier thorough",
            "evidence_file": f"evidence/{pid}.json",
            "replay_cmd_template": f"{PY} replay {{path}}",
            "engine": c["engine"],
            "level_claimed": {"category": "other", "text": c["text"], "design_ref": f"DESIGN.md §3 {pid}"},
            "level_note": c["note"],
            "technique": c["technique"],
        })
    elif c:
        not_app.append({"property_id": pid, "reason": "static rule designed (DESIGN.md §3) but its checker is not built yet; not claimed until it runs"})
    else:
        not_app.append({"property_id": pid, "reason": na.get(pid, "no structural clause within reach of static analysis (DESIGN.md §3)")})
engines = json.loads((V / "tools" / "engines.json").read_text())
claimed_ids = {c["property_id"] for c in checks}
for e in engines:
    e["serves_properties"] = [p for p in e["serves_properties"] if p in claimed_ids]
manifest = {
    "version": 1,
    "setup_cmd": "true",
    "hooks": {
        "guard": "PENNYLANE_VERIF",
        "enable": "none - checks read /repo's source only; no hook was added to the repository",
        "baseline_off_cmd": "cd /repo && /venv/bin/python -m pytest -ra -q -p no:cacheprovider --timeout=900 --continue-on-collection-errors",
        "source_commits": [],
        "add_only": True,
    },
    "engines": engines,
    "checks": checks,
    "notes": "Technique family: static analysis only. Every check parses /repo's working tree (ast + class/MRO index + per-function CFG + small abstract domains) and never imports pennylane. Each claim decides a named structural clause of its property, not the numerical behaviour; verdicts are proved/refuted/unknown and only a refutation raises VIOLATION. exit 2 + ANALYSIS-ERROR = anchor vanished / floor missed / self-test failed (never a verdict). thorough = quick + the seeded-variant self-test of the rules (in-memory overlays, /repo untouched). Known genuine defects are listed in known_findings.json.",
    "not_applicable": not_app,
}
fixes = V / "tools" / "fix_commits.json"
if fixes.exists():
    manifest["hooks"]["source_commits"] = json.loads(fixes.read_text())
(V / "MANIFEST.json").write_text(json.dumps(manifest, indent=1, ensure_ascii=False) + "\n")
print(f"{len(checks)} checks, {len(not_app)} not applicable")
