#!/venv/bin/python
"""Per-rule table of the E3 rulescan engine, for reviewing the precision of C11.

usage:  cd /verif && /venv/bin/python tools/e3_table.py [--root /repo] [--filter text] [--only unknown|set|exact|REFUTED] [-v]

Columns: module, rule, resolved?, straight-line?, emitted multiset (per path), declared multiset
(per path), verdict (exact | exact(coarse) | set | unknown | REFUTED) and the reason.
"""

from __future__ import annotations

import argparse
import sys
import time
from collections import Counter
from pathlib import Path

sys.path.insert(0, str(Path(__file__).resolve().parent.parent))

from pennyverif.core import norm  # noqa: E402
from pennyverif.index import get_index  # noqa: E402
from pennyverif.props.c11 import judge  # noqa: E402
from pennyverif.rulescan import get_scanner, registrations  # noqa: E402


def fmt_conds(c):
    return " & ".join(f"{'' if v else '!'}[{k}]" for k, v in sorted(c.items())) or "-"


def fmt_ms(ms):
    return ", ".join(f"{k}:{lo if str(lo) == str(hi) else f'{lo}..{hi}'}" for k, (lo, hi) in sorted(ms.items())) or "(nothing)"


def main():
    ap = argparse.ArgumentParser()
    ap.add_argument("--root", default="/repo")
    ap.add_argument("--filter", default="")
    ap.add_argument("--only", default="")
    ap.add_argument("-v", "--verbose", action="store_true")
    ap.add_argument("--registrations", action="store_true")
    a = ap.parse_args()
    t0 = time.time()
    ix = get_index(a.root)
    sc = get_scanner(ix)
    rules = sc.rules()
    tally = Counter()
    for ri in rules:
        v = judge(sc, ri)
        tally[v.summary] += 1
        tally["resolved"] += bool(ri.resolved)
        tally["straight-line"] += bool(ri.straight_line)
        where = f"{ri.module.relpath.replace('pennylane/', '')}:{ri.qualname}"
        if a.filter and a.filter not in where:
            continue
        if a.only and a.only != v.summary:
            continue
        ex = {True: "exact", False: "inexact", None: "exact=?"}[ri.exact]
        print(f"{where}  [{ex}] resolved={'yes' if ri.resolved else 'NO'} straight-line={'yes' if ri.straight_line else 'no'}  => {v.summary}")
        for p in ri.paths:
            print(f"    emitted  {fmt_conds(p.conds):40s} {fmt_ms(p.multiset())}")
        for p in ri.declared_paths:
            d = ", ".join(f"{k}:{c}" for k, c in sorted(p.declared.items.items())) if p.declared is not None else "(not read)"
            print(f"    declared {fmt_conds(p.conds):40s} {d or '(nothing)'}")
        print(f"    set: {v.set_v} ({v.set_detail});  count: {v.count_v} ({v.count_detail})" + (f";  work: {v.work_v} ({v.work_detail})" if v.work_v != "n/a" else ""))
        for u in ri.unresolved:
            print(f"    unresolved: {u}")
        for u in ri.declared_why:
            print(f"    resource side: {u}")
        if a.verbose:
            for e in ri.emissions:
                print(f"      emission {e.key} x{e.count}{' optional' if e.optional else ''}{' fuzzy' if e.fuzzy else ''} cond={e.cond} "
                      f"wires={norm(e.wires) if e.wires is not None else None} at {e.func}:{getattr(e.node, 'lineno', 0)}")
            for s in ri.allocs:
                print(f"      allocate n={s.num} state={s.state} restored={s.restored} kind={s.kind} depth={s.depth} in {s.func}")
            for m in ri.measures:
                print(f"      measure {m.var} = {m.kind}({m.word}) uses={[u[0] for u in m.uses]}")
        for f in v.findings:
            print(f"    !! {f[0]}: {f[2]}")
    if a.registrations:
        for r in registrations(ix):
            print(f"add_decomps {r.target_text} kind={r.kind} base={r.base.name if r.base else None} in {r.module.relpath}")
            for x in r.rules:
                what = f"rule {x.rule.qualname}" if x.rule else (f"factory {x.factory.qualname}({', '.join(i.text for i in x.inner)})" if x.factory else "unresolved")
                print(f"    {x.text} -> {what}")
    print(f"-- {len(rules)} rules: " + ", ".join(f"{k}={n}" for k, n in sorted(tally.items())) + f"  ({time.time() - t0:.1f}s)")


if __name__ == "__main__":
    main()
