#!/usr/bin/env python3
"""Print the prompt given to an independent sub-agent that seeds a property-breaking change.
The agent sees only the property record and its own scratch worktree (nothing from /verif)."""
import json, sys
pid = sys.argv[1]
tag = sys.argv[2] if len(sys.argv) > 2 else ""      # e.g. "r2": second round, own worktree /tmp/wt/<pid>r2
avoid = sys.argv[3] if len(sys.argv) > 3 else ""    # sites already used by earlier independent attempts
rec = None
for l in open('/verif/properties.jsonl'):
    p = json.loads(l)
    if p['id'] == pid:
        rec = p
wid = pid + tag
print(f"""You are testing how robust a Python library's correctness properties are against subtle regressions.

Repository: a git worktree of PennyLane (quantum programming framework) at /tmp/wt/{wid} . Work ONLY inside that directory and /tmp/wt-out/{wid}/ . Never touch /repo or /verif, never run git commit, never create other worktrees. Use /venv/bin/python (Python 3.12, all dependencies installed; running it with the worktree as cwd imports the worktree's `pennylane` package - verify with `cd /tmp/wt/{wid} && /venv/bin/python -c "import pennylane; print(pennylane.__file__)"`). There is no network.

Here is one semantic property that the library is supposed to satisfy (JSON record):

{json.dumps(rec, indent=1)}

Task: produce up to TWO independent, realistic changes to the library source under /tmp/wt/{wid}/pennylane/ (each a small patch of the kind a developer could plausibly make by mistake during a refactor or "optimisation"; at different code sites / mechanisms) such that each change, applied alone:
 1. BREAKS the property above (observable through the public API),
 2. still imports/compiles, and the existing pinned test-suite still passes. The pinned command is `cd /tmp/wt/{wid} && /venv/bin/python -m pytest -ra -q -p no:cacheprovider --timeout=900 --continue-on-collection-errors` (about 4-5 minutes; on the UNCHANGED tree 257 documentation examples pass and 286 items fail for environmental reasons - what matters is that the set of passing tests does not shrink: still 257 passed). Run it once per final patch and record the passed/failed counts,
 3. needs something SPECIFIC to manifest - a particular multi-step sequence of operations, an unusual input, an exception at a particular point, a particular interleaving of threads, or two cooperating sites that each look fine alone - i.e. NOT something that ordinary use or a trivial smoke test would expose at once.

For each change write into /tmp/wt-out/{wid}/ :
  - patch1.diff (and patch2.diff): output of `git -C /tmp/wt/{wid} diff` for that change alone (apply-able with `git apply` on a clean tree),
  - demo1.py (and demo2.py): a small standalone program run as `cd <tree> && /venv/bin/python demo1.py`-style (it must locate pennylane from the current working directory) that exits with status 0 on the UNCHANGED tree and a non-zero status (assertion failure) on the changed tree, demonstrating the property violation through public behaviour,
  - notes1.md (and notes2.md): 5-10 lines: what the change is, why it breaks the property, what it needs in order to manifest, the exact commands you ran and their results (demo on clean tree, demo on patched tree, pinned-suite counts).
Verify everything yourself: demo passes on the clean tree, fails with the patch. NEVER use `git stash` (the stash is shared by all worktrees of the repository and other agents work in sibling worktrees): save with `git diff > /tmp/wt-out/{wid}/patchN.diff`, clean with `git checkout -- .`, re-apply with `git apply`, and re-check `git diff` before trusting any clean/patched run. Leave the worktree CLEAN (git checkout -- .) when you finish; the patches live only in /tmp/wt-out/{wid}/.

{("Earlier independent attempts already produced changes at these sites; produce changes at DIFFERENT sites and with different mechanisms: " + avoid) if avoid else ""}

Keep your final answer short: for each patch one line saying which file/function it touches and whether all three verifications succeeded.""")
